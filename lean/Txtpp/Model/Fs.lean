import Txtpp.Model.Pp
/-! File-system model (DESIGN 4.5/4.6): a finite tree of regular files and directories rooted at the
    base directory, OS-style path resolution, the `World` instance one source file sees, the four
    output sinks of `CtxOut`, and `runPass` = `preprocess` for one (file, pass). -/
namespace Txt

abbrev Path := List Str

structure FS where
  files : List (Path × ByteArray)
  dirs : List Path                 -- besides the root `[]`
  touched : List Path := []        -- paths that had a create/truncate/write/remove applied
  log : List Str := []             -- marker log written by commands (reverse order)

def FS.isDir (fs : FS) (p : Path) : Bool := p == [] || fs.dirs.contains p
def FS.file? (fs : FS) (p : Path) : Option ByteArray := (fs.files.find? (fun kv => kv.1 == p)).map (·.2)
def FS.isFile (fs : FS) (p : Path) : Bool := (fs.file? p).isSome
def FS.pathExists (fs : FS) (p : Path) : Bool := fs.isDir p || fs.isFile p
def FS.touch (fs : FS) (p : Path) : FS := { fs with touched := if fs.touched.contains p then fs.touched else p :: fs.touched }
def FS.write (fs : FS) (p : Path) (b : ByteArray) : FS :=
  { fs.touch p with files := (p, b) :: fs.files.filter (fun kv => kv.1 != p) }
def FS.remove (fs : FS) (p : Path) : FS :=
  { fs.touch p with files := fs.files.filter (fun kv => kv.1 != p) }

def splitOn (sep : Char) : Str → List Str
  | [] => [[]]
  | c :: cs =>
    if c = sep then [] :: splitOn sep cs
    else match splitOn sep cs with
      | [] => [[c]]
      | l :: ls => (c :: l) :: ls

def dot : Str := ['.']
def dotdot : Str := ['.', '.']

/-- OS path resolution from `cur` along `comps`: every step needs the current path to be a
    directory; `..` above the base leaves the modelled tree (`none`). The final path need not exist. -/
def FS.walk (fs : FS) : Path → List Str → Option Path
  | cur, [] => some cur
  | cur, c :: cs =>
    if !fs.isDir cur then none
    else if c = [] || c = dot then fs.walk cur cs
    else if c = dotdot then (if cur = [] then none else fs.walk cur.dropLast cs)
    else fs.walk (cur ++ [c]) cs

structure Cfg where
  mode : Mode
  trailing : Bool
  recursive : Bool
  baseAbs : Str                            -- absolute path of the base directory (for absolute arguments)
  cmds : List (Str × List (Str × Str))     -- command text ↦ actions (kind, argument); unknown commands fail

/-- components of an argument path relative to `wd`; absolute arguments must lie below the base -/
def argComps (cfg : Cfg) (wd : Path) (arg : Str) : Option (Path × List Str) :=
  match arg with
  | '/' :: _ =>
    if cfg.baseAbs.isPrefixOf arg then
      let rest := arg.drop cfg.baseAbs.length
      match rest with
      | [] => some ([], [])
      | '/' :: r => some ([], splitOn '/' r)
      | _ => none
    else none
  | _ => some (wd, splitOn '/' arg)

def FS.resolve (fs : FS) (cfg : Cfg) (wd : Path) (arg : Str) : Option Path :=
  match argComps cfg wd arg with
  | none => none
  | some (start, comps) => fs.walk start comps

def decodeUtf8 (b : ByteArray) : Option Str := (String.fromUTF8? b).map String.toList
def encodeUtf8 (s : Str) : ByteArray := (String.ofList s).toUTF8

def joinPath (p : Path) : Str := joinWith ['/'] p

/-- lexical part of `work_dir.join(arg)`: (components of the parent, file name); std
    `Path::components` drops `.` and empty components -/
def depSplit (cfg : Cfg) (wd : Path) (arg : Str) : Option (List Str × Str) :=
  match argComps cfg wd arg with
  | none => none
  | some (start, comps) =>
    let lex := comps.filter (fun c => c != [] && c != dot)
    match lex.reverse with
    | [] => (match start.reverse with | [] => none | n :: r => some (r.reverse, n))   -- the directory itself
    | n :: r => some (start ++ r.reverse, n)

/-- `is_file` of the candidate `cand` in the directory `parentComps` -/
def FS.existsAt (fs : FS) (parentComps : List Str) (cand : Str) : Bool :=
  match fs.walk [] (parentComps ++ [cand]) with
  | some p => fs.isFile p
  | none => false

/-- `work_dir.join(arg).get_txtpp_file()`: candidates tested with `is_file` -/
def FS.depOf (fs : FS) (cfg : Cfg) (wd : Path) (arg : Str) : Option Path :=
  match depSplit cfg wd arg with
  | none => none
  | some (parentComps, name) =>
    if name = dotdot then none else
    match PathName.getTxtppFile (fs.existsAt parentComps) name with
    | none => none
    | some cand => fs.walk [] (parentComps ++ [cand])

/-- one action of a vocabulary command: (stdout, status ok, world) -/
def runAct (cfg : Cfg) (wd : Path) (src : Str) (fs : FS) (kind arg : Str) : ByteArray × Bool × FS :=
  if kind = "lit".toList then (encodeUtf8 arg, true, fs)
  else if kind = "cat".toList then
    match fs.resolve cfg wd arg with
    | some p => (match fs.file? p with
        | some b => (b, true, fs)
        | none => (ByteArray.empty, false, fs))
    | none => (ByteArray.empty, false, fs)
  else if kind = "mark".toList then (ByteArray.empty, true, { fs with log := arg :: fs.log })
  else if kind = "pwd".toList then (encodeUtf8 (cfg.baseAbs ++ (if wd = [] then [] else '/' :: joinPath wd) ++ ['\n']), true, fs)
  else if kind = "file".toList then (encodeUtf8 src, true, fs)
  else if kind = "true".toList then (ByteArray.empty, true, fs)
  else (ByteArray.empty, false, fs)      -- "fail" and anything unknown

def runActs (cfg : Cfg) (wd : Path) (src : Str) : FS → List (Str × Str) → ByteArray → Bool → ByteArray × Bool × FS
  | fs, [], out, ok => (out, ok, fs)
  | fs, (k, a) :: rest, out, _ =>
    let (o, ok, fs') := runAct cfg wd src fs k a
    runActs cfg wd src fs' rest (out ++ o) ok

/-- the `World` one source file (in directory `wd`, displayed as `src`) sees -/
def fileWorld (cfg : Cfg) (wd : Path) (src : Str) : World FS where
  readInclude fs arg :=
    match fs.resolve cfg wd arg with
    | some p => (match fs.file? p with | some b => decodeUtf8 b | none => none)
    | none => none
  depOf fs arg := some ((fs.depOf cfg wd arg).map joinPath)
  run fs cmd :=
    match cfg.cmds.find? (fun kv => kv.1 == cmd) with
    | none => (none, fs)
    | some (_, acts) =>
      let (out, ok, fs') := runActs cfg wd src fs acts ByteArray.empty true
      if ok then (decodeUtf8 out, fs') else (none, fs')
  writeTemp fs target contents :=
    match fs.resolve cfg wd target with
    | none => none                                      -- missing parent directory: `File::create` fails
    | some p =>
      if fs.isDir p then none
      else
        let fs1 := if fs.isFile p then fs else fs.write p ByteArray.empty     -- `try_resolve(.., create = true)`
        let new := encodeUtf8 contents
        if fs1.file? p = some new then some fs1 else some (fs1.write p new)
  removeTemp fs target :=
    match fs.resolve cfg wd target with
    | none => some fs
    | some p =>
      if fs.isFile p then some (fs.remove p)
      else if fs.isDir p then none
      else some fs

/-- `get_line_ending_from_buf` on the first line (`read_until(b'\n')`); LF is the OS default here -/
def sniffLE (b : List UInt8) : Str :=
  let first := b.takeWhile (· != 10)
  let hasNl := first.length < b.length
  if hasNl && first.getLast? == some 13 then ['\r', '\n'] else ['\n']

/-- `BufRead::lines` on raw bytes: split at `\n`; a piece that was ended by `\n` loses one trailing `\r`
    (`\r\n` is one terminator), the last piece without `\n` is kept as it is (a lone final `\r` stays);
    no final empty piece -/
def byteLines : List UInt8 → List (List UInt8)
  | [] => []
  | b =>
    let rec go : List UInt8 → List UInt8 → List (List UInt8)
      | [], acc => if acc.isEmpty then [] else [acc.reverse]
      | 10 :: rest, acc => (if acc.head? == some 13 then acc.tail.reverse else acc.reverse) :: go rest []
      | x :: rest, acc => go rest (x :: acc)
    go b []

/-- decoded lines up to the first undecodable one, and whether all were decodable -/
def decodeLines : List (List UInt8) → List Str × Bool
  | [] => ([], true)
  | l :: ls =>
    match decodeUtf8 (ByteArray.mk l.toArray) with
    | none => ([], false)
    | some s => let (r, ok) := decodeLines ls; (s :: r, ok)

inductive Outcome where
  | ok | hasDeps (deps : List Str) | err
deriving Repr, DecidableEq

/-- `CtxOut::new`: what opening the output does, `none` = error -/
def sinkStart (mode : Mode) (fs : FS) (o : Path) : Option FS :=
  match mode with
  | .build => if fs.isDir o then none else some (fs.write o ByteArray.empty)
  | .inMemory => some fs
  | .clean => if fs.isFile o then some (fs.remove o) else if fs.isDir o then none else some fs
  | .verify => if fs.pathExists o then some fs else none

/-- `IOCtx::done` after all output `new` has been produced -/
def sinkEnd (mode : Mode) (fs2 : FS) (o : Path) (new : ByteArray) : Outcome × FS :=
  match mode with
  | .build => (.ok, fs2.write o new)
  | .inMemory =>
    if fs2.isDir o then (.err, fs2)
    else if fs2.file? o = some new then (.ok, fs2) else (.ok, fs2.write o new)
  | .clean => (.ok, fs2)
  | .verify => if fs2.file? o = some new then (.ok, fs2) else (.err, fs2)

/-- one pass over a readable source with output path `o` -/
def runPassAt (cfg : Cfg) (fs : FS) (src : Path) (first : Bool) (content : ByteArray) (o : Path) : Outcome × FS :=
  match sinkStart cfg.mode fs o with
  | none => (.err, fs)
  | some fs1 =>
    match ppPass (fileWorld cfg src.dropLast (joinPath src)) cfg.mode (sniffLE content.toList) first cfg.trailing fs1
        (decodeLines (byteLines content.toList)).1 (decodeLines (byteLines content.toList)).2 with
    | .err => (.err, fs1)
    | .hasDeps deps fs2 => (.hasDeps deps, fs2)
    | .ok out fs2 => sinkEnd cfg.mode fs2 o (encodeUtf8 out)

/-- the output path of a source, `none` if the name is not a txtpp name -/
def outputPath (src : Path) : Option Path :=
  match src.getLast? with
  | none => none
  | some name => (PathName.removeTxtpp name).map (fun n => src.dropLast ++ [n])

/-- `preprocess(shell, input_file, mode, is_first_pass, trailing_newline)` on the model FS -/
def runPass (cfg : Cfg) (fs : FS) (src : Path) (first : Bool) : Outcome × FS :=
  match fs.file? src, outputPath src with
  | some content, some o => runPassAt cfg fs src first content o
  | _, _ => (.err, fs)

end Txt

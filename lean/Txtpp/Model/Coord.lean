/-! Scratch prototype of the coordinator + DepManager model (execute/mod.rs, dependency.rs). -/
namespace Coord

abbrev File := Nat

inductive Task where
  | pp (f : File) (first : Bool)
deriving DecidableEq, Repr

inductive Res where
  | ok (f : File)
  | hasDeps (f : File) (deps : List File)
  | err
deriving Repr

def upd {α} (m : File → α) (k : File) (v : α) : File → α := fun x => if x = k then v else m x
@[simp] theorem upd_same {α} (m : File → α) (k v) : upd m k v k = v := by simp [upd]
@[simp] theorem upd_other {α} (m : File → α) (k v x) (h : x ≠ k) : upd m k v x = m x := by simp [upd, h]

structure DepMgr where
  cnt : File → Option Nat
  inE : File → List File
  fin : List File

/-- DepManager::add_dependency, the `for dependency in dependencies` loop.
    `c` is `*dependency_count`, `added` the flag. -/
def addDepLoop (a : File) : List File → (File → List File) → List File → Nat → Bool → (File → List File) × Nat × Bool
  | [], inE, _, c, added => (inE, c, added)
  | d :: ds, inE, fin, c, added =>
    if d ∈ fin then addDepLoop a ds inE fin c added
    else if a ∈ inE d then addDepLoop a ds inE fin c true
    else addDepLoop a ds (upd inE d (a :: inE d)) fin (c + 1) true

def addDependency (m : DepMgr) (a : File) (deps : List File) : DepMgr × Bool :=
  if deps = [] then (m, false) else
  let c0 := (m.cnt a).getD 0
  let r := addDepLoop a deps m.inE m.fin c0 false
  ({ m with inE := r.1, cnt := upd m.cnt a (some r.2.1) }, r.2.2)

/-- DepManager::notify_finish, the `for depender in in_edges` loop; `none` = `unwrap` panicked -/
def releaseLoop : List File → (File → Option Nat) → List File → Option ((File → Option Nat) × List File)
  | [], cnt, out => some (cnt, out)
  | a :: as, cnt, out =>
    match cnt a with
    | none => none
    | some c => if c ≤ 1 then releaseLoop as (upd cnt a none) (a :: out)
                else releaseLoop as (upd cnt a (some (c - 1))) out

def notifyFinish (m : DepMgr) (b : File) : Option (DepMgr × List File) :=
  match releaseLoop (m.inE b) m.cnt [] with
  | none => none
  | some (cnt, out) => some ({ cnt := cnt, inE := upd m.inE b [], fin := b :: m.fin }, out)

structure St where
  seen : List File
  total : Nat
  done : Nat
  dm : DepMgr
  pool : List Task

def execFile (s : St) (f : File) (first : Bool) : St :=
  if first && s.seen.contains f then s
  else { s with seen := if first then f :: s.seen else s.seen, total := s.total + 1,
                pool := s.pool ++ [Task.pp f first] }

def execFiles (s : St) (fs : List File) (first : Bool) : St := fs.foldl (fun s f => execFile s f first) s

inductive Out where
  | cont (s : St)
  | fail
  | panic

/-- the body of the coordinator loop after a successful `try_recv` -/
def handle (s : St) (r : Res) : Out :=
  let s := { s with done := s.done + 1 }
  match r with
  | .err => .fail
  | .hasDeps a deps =>
    let r := addDependency s.dm a deps
    let s := { s with dm := r.1 }
    if r.2 then .cont (execFiles s deps true) else .cont (execFile s a false)
  | .ok b =>
    match notifyFinish s.dm b with
    | none => .panic
    | some (dm, rel) => .cont (execFiles { s with dm := dm } rel false)

/-- static world: the dependency lists and which passes fail -/
structure World where
  deps : File → List File
  failFirst : File → Bool      -- error before the first dependency directive (any error, if `deps f = []`)
  failFinal : File → Bool      -- the final pass fails

def World.result (w : World) : Task → Res
  | .pp f true  => if w.deps f = [] then (if w.failFirst f || w.failFinal f then .err else .ok f)
                   else (if w.failFirst f then .err else .hasDeps f (w.deps f))
  | .pp f false => if w.failFinal f then .err else .ok f

def init (inputs : List File) : St :=
  execFiles ⟨[], 0, 0, ⟨fun _ => none, fun _ => [], []⟩, []⟩ inputs true

/-- one coordinator iteration: any undelivered task may be the next one received -/
inductive Step (w : World) : St → St → Prop where
  | deliver (s s' : St) (t : Task) (ht : t ∈ s.pool)
      (h : handle { s with pool := s.pool.erase t } (w.result t) = .cont s') : Step w s s'

inductive Reach (w : World) (inputs : List File) : St → Prop where
  | init : Reach w inputs (init inputs)
  | step (s s') : Reach w inputs s → Step w s s' → Reach w inputs s'

end Coord

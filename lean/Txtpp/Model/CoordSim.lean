import Txtpp.Model.Coord
import Txtpp.Model.CoordScan
/-! Executable schedule simulator over the coordinator model: the thread pool runs the first `n`
    undelivered tasks in spawn order (threadpool 1.8: FIFO), the schedule picks which of them is
    delivered next. Used for the trace correspondence M6. -/
namespace Coord

def taskKey : Task → Nat × Nat
  | .pp f first => (f, if first then 1 else 2)

def taskLe (a b : Task) : Bool :=
  let ka := taskKey a; let kb := taskKey b
  ka.1 < kb.1 || (ka.1 == kb.1 && ka.2 ≤ kb.2)

def insertTask (a : Task) : List Task → List Task
  | [] => [a]
  | b :: bs => if taskLe a b then a :: b :: bs else b :: insertTask a bs

def sortTasks (l : List Task) : List Task := l.foldr insertTask []

structure SimStep where
  enabled : List Task
  choice : Nat
  spawned : List Task
  done : Nat := 0      -- `Progress` counters when the delivery is chosen
  total : Nat := 0

inductive SimVerdict where
  | ok | err | circular | panic | outOfFuel
deriving Repr, DecidableEq

def anyWaiting (s : St) (univ : Nat) : Bool :=
  (List.range univ).any (fun d => !(s.dm.inE d).isEmpty)

/-- is `a` a permutation of `b` (duplicate-free lists) -/
def samePerm (a b : List Task) : Bool := a.length == b.length && a.all (b.contains ·) && b.all (a.contains ·)

def simLoop (w : World) (n univ : Nat) : Nat → St → List Nat → List (List Task) → List SimStep → SimVerdict × List SimStep
  | 0, _, _, _, acc => (.outOfFuel, acc.reverse)
  | fuel + 1, s, choices, orders, acc =>
    if s.pool.isEmpty then ((if anyWaiting s univ then .circular else .ok), acc.reverse)
    else
      let en := sortTasks (s.pool.take n)
      let c := (choices.headD 0) % en.length
      match en[c]? with
      | none => (.panic, acc.reverse)
      | some t =>
        let rest := s.pool.erase t
        match handle { s with pool := rest } (w.result t) with
        | .fail => (.err, (⟨en, c, [], s.done, s.total⟩ :: acc).reverse)
        | .panic => (.panic, (⟨en, c, [], s.done, s.total⟩ :: acc).reverse)
        | .cont s' =>
          let fresh := s'.pool.drop rest.length
          -- the order in which one delivery hands several tasks to the pool comes out of a HashSet in
          -- the code: take the observed order when it is a permutation of the model's set
          let hint := orders.headD []
          let s'' := if samePerm hint fresh then { s' with pool := s'.pool.take rest.length ++ hint } else s'
          simLoop w n univ fuel s'' choices.tail orders.tail (⟨en, c, sortTasks fresh, s.done, s.total⟩ :: acc)

def simulate (w : World) (n univ : Nat) (inputs : List File) (choices : List Nat) (orders : List (List Task) := []) :
    SimVerdict × List SimStep :=
  simLoop w (max n 1) univ (4 * univ + 8) (init inputs) choices orders []

end Coord

/-! ### simulator with directory scans (all in-flight tasks enabled: thread count ≥ tasks) -/
namespace Coord

inductive UTask where
  | scan (d : Dir)
  | pp (t : Task)
deriving DecidableEq

def uKey : UTask → Nat × Nat × Nat
  | .scan d => (0, d, 0)
  | .pp t => (1, (taskKey t).1, (taskKey t).2)

def uLe (a b : UTask) : Bool :=
  let ka := uKey a; let kb := uKey b
  ka.1 < kb.1 || (ka.1 == kb.1 && (ka.2.1 < kb.2.1 || (ka.2.1 == kb.2.1 && ka.2.2 ≤ kb.2.2)))

def insertU (a : UTask) : List UTask → List UTask
  | [] => [a]
  | b :: bs => if uLe a b then a :: b :: bs else b :: insertU a bs

def sortU (l : List UTask) : List UTask := l.foldr insertU []

def inFlight (x : SSt) : List UTask := sortU (x.scans.map UTask.scan ++ x.st.pool.map UTask.pp)

structure USimStep where
  enabled : List UTask
  choice : Nat
  spawned : List UTask
  done : Nat := 0
  total : Nat := 0

def ssimLoop (w : ScanWorld) (univ : Nat) : Nat → SSt → List Nat → List USimStep → SimVerdict × List USimStep
  | 0, _, _, acc => (.outOfFuel, acc.reverse)
  | fuel + 1, x, choices, acc =>
    let en := inFlight x
    if en.isEmpty then ((if anyWaiting x.st univ then .circular else .ok), acc.reverse)
    else
      let c := (choices.headD 0) % en.length
      match en[c]? with
      | none => (.panic, acc.reverse)
      | some (.scan d) =>
        (match handleScan w { x with scans := x.scans.erase d } d with
         | none => (.err, (⟨en, c, [], x.st.done + x.sdone, x.st.total + x.stotal⟩ :: acc).reverse)
         | some x' =>
           let before := inFlight { x with scans := x.scans.erase d }
           let spawned := (inFlight x').filter (fun t => !before.contains t)
           ssimLoop w univ fuel x' choices.tail (⟨en, c, spawned, x.st.done + x.sdone, x.st.total + x.stotal⟩ :: acc))
      | some (.pp t) =>
        (match handle { x.st with pool := x.st.pool.erase t } (w.toWorld.result t) with
         | .fail => (.err, (⟨en, c, [], x.st.done + x.sdone, x.st.total + x.stotal⟩ :: acc).reverse)
         | .panic => (.panic, (⟨en, c, [], x.st.done + x.sdone, x.st.total + x.stotal⟩ :: acc).reverse)
         | .cont s' =>
           let x' := { x with st := s' }
           let before := inFlight { x with st := { x.st with pool := x.st.pool.erase t } }
           let spawned := (inFlight x').filter (fun u => !before.contains u)
           ssimLoop w univ fuel x' choices.tail (⟨en, c, spawned, x.st.done + x.sdone, x.st.total + x.stotal⟩ :: acc))

def ssimulate (w : ScanWorld) (univ ndirs : Nat) (files : List File) (ds : List Dir) (choices : List Nat) :
    SimVerdict × List USimStep :=
  ssimLoop w univ (4 * univ + 2 * ndirs + 8) (sinit files ds) choices []

end Coord

import Txtpp.Model.Coord
/-! Executable schedule simulator over the coordinator model: the thread pool runs the first `n`
    undelivered tasks in spawn order (threadpool 1.8: FIFO), the schedule picks which of them is
    delivered next. Used for the trace correspondence M6. -/
namespace Coord

def taskKey : Task → Nat × Nat
  | .pp f first => (f, if first then 1 else 2)

def taskLe (a b : Task) : Bool :=
  let ka := taskKey a; let kb := taskKey b
  ka.1 < kb.1 || (ka.1 == kb.1 && ka.2 ≤ kb.2)

def insertTask (a : Task) : List Task → List Task
  | [] => [a]
  | b :: bs => if taskLe a b then a :: b :: bs else b :: insertTask a bs

def sortTasks (l : List Task) : List Task := l.foldr insertTask []

structure SimStep where
  enabled : List Task
  choice : Nat
  spawned : List Task

inductive SimVerdict where
  | ok | err | circular | panic | outOfFuel
deriving Repr, DecidableEq

def anyWaiting (s : St) (univ : Nat) : Bool :=
  (List.range univ).any (fun d => !(s.dm.inE d).isEmpty)

/-- is `a` a permutation of `b` (duplicate-free lists) -/
def samePerm (a b : List Task) : Bool := a.length == b.length && a.all (b.contains ·) && b.all (a.contains ·)

def simLoop (w : World) (n univ : Nat) : Nat → St → List Nat → List (List Task) → List SimStep → SimVerdict × List SimStep
  | 0, _, _, _, acc => (.outOfFuel, acc.reverse)
  | fuel + 1, s, choices, orders, acc =>
    if s.pool.isEmpty then ((if anyWaiting s univ then .circular else .ok), acc.reverse)
    else
      let en := sortTasks (s.pool.take n)
      let c := (choices.headD 0) % en.length
      match en[c]? with
      | none => (.panic, acc.reverse)
      | some t =>
        let rest := s.pool.erase t
        match handle { s with pool := rest } (w.result t) with
        | .fail => (.err, (⟨en, c, []⟩ :: acc).reverse)
        | .panic => (.panic, (⟨en, c, []⟩ :: acc).reverse)
        | .cont s' =>
          let fresh := s'.pool.drop rest.length
          -- the order in which one delivery hands several tasks to the pool comes out of a HashSet in
          -- the code: take the observed order when it is a permutation of the model's set
          let hint := orders.headD []
          let s'' := if samePerm hint fresh then { s' with pool := s'.pool.take rest.length ++ hint } else s'
          simLoop w n univ fuel s'' choices.tail orders.tail (⟨en, c, sortTasks fresh⟩ :: acc)

def simulate (w : World) (n univ : Nat) (inputs : List File) (choices : List Nat) (orders : List (List Task) := []) :
    SimVerdict × List SimStep :=
  simLoop w (max n 1) univ (4 * univ + 8) (init inputs) choices orders []

end Coord

import Txtpp.Model.Project
/-! The sequential reference run with its trace (which passes were delivered to the coordinator, with which
    results): what the concrete theorems of C03/C05 talk about. -/
namespace Txt

/-- `runLoop` with its trace: the last state reached and the list of (task, result) deliveries that were
    handed to the coordinator and let the loop continue -/
def runLoopT (cfg : Cfg) : Nat → PSt → List (Coord.Task × Coord.Res) → PSt × List (Coord.Task × Coord.Res)
  | 0, s, h => (s, h)
  | fuel + 1, s, h =>
    match s.st.pool with
    | [] => (s, h)
    | .pp f first :: rest =>
      let src := s.names.getD f []
      let (oc, fs') := runPass cfg s.fs src first
      let st := { s.st with pool := rest }
      match oc with
      | .err => ({ s with fs := fs' }, h)
      | .ok =>
        (match Coord.handle st (.ok f) with
         | .cont st' => runLoopT cfg fuel { s with st := st', fs := fs' } (h ++ [(.pp f first, .ok f)])
         | _ => ({ s with fs := fs' }, h))
      | .hasDeps deps =>
        let (names', idx) := indexAll s.names (deps.map (fun d => (splitOn '/' d)))
        (match Coord.handle st (.hasDeps f idx) with
         | .cont st' => runLoopT cfg fuel { names := names', st := st', fs := fs' } (h ++ [(.pp f first, .hasDeps f idx)])
         | _ => ({ s with fs := fs' }, h))

/-- the trace of the whole run: input indices, last state, deliveries; `none` = the inputs do not resolve -/
def runProjectT (cfg : Cfg) (fs : FS) (inputs : List Str) : Option (List Coord.File × PSt × List (Coord.Task × Coord.Res)) :=
  match resolveInputs cfg fs inputs with
  | none => none
  | some (files, dirs) =>
    let scanned := scanAll fs cfg.recursive (fs.dirs.length + dirs.length + 2) dirs []
    let (names, idx) := indexAll [] (files ++ scanned)
    let r := runLoopT cfg (4 * (fs.files.length + 4)) { names := names, st := Coord.init idx, fs := fs } []
    some (idx, r.1, r.2)

/-- the coordinator driven with real passes in an *arbitrary* delivery order: `choices` picks, at every step,
    which task of the pool is run and delivered next (`runLoop` is the order "always the oldest").
    Returns the verdict, the last state and the trace. -/
def runSched (cfg : Cfg) : List Nat → Nat → PSt → List (Coord.Task × Coord.Res) → Verdict × PSt × List (Coord.Task × Coord.Res)
  | _, 0, s, h => (.outOfFuel, s, h)
  | choices, fuel + 1, s, h =>
    match s.st.pool with
    | [] => (if remaining s then .circular else .ok, s, h)
    | t0 :: rest0 =>
      let k := (choices.headD 0) % (t0 :: rest0).length
      match (t0 :: rest0).getD k t0 with
      | .pp f first =>
        let src := s.names.getD f []
        let (oc, fs') := runPass cfg s.fs src first
        let st := { s.st with pool := s.st.pool.erase (.pp f first) }
        match oc with
        | .err => (.err, { s with fs := fs' }, h)
        | .ok =>
          (match Coord.handle st (.ok f) with
           | .cont st' => runSched cfg choices.tail fuel { s with st := st', fs := fs' } (h ++ [(.pp f first, .ok f)])
           | .fail => (.err, { s with fs := fs' }, h)
           | .panic => (.panic, { s with fs := fs' }, h))
        | .hasDeps deps =>
          let (names', idx) := indexAll s.names (deps.map (fun d => (splitOn '/' d)))
          (match Coord.handle st (.hasDeps f idx) with
           | .cont st' => runSched cfg choices.tail fuel { names := names', st := st', fs := fs' } (h ++ [(.pp f first, .hasDeps f idx)])
           | .fail => (.err, { s with fs := fs' }, h)
           | .panic => (.panic, { s with fs := fs' }, h))


/-- `Txtpp::run` with an arbitrary delivery order -/
def runProjectSched (cfg : Cfg) (choices : List Nat) (fs : FS) (inputs : List Str) :
    Option (Verdict × List Coord.File × PSt × List (Coord.Task × Coord.Res)) :=
  match resolveInputs cfg fs inputs with
  | none => none
  | some (files, dirs) =>
    let scanned := scanAll fs cfg.recursive (fs.dirs.length + dirs.length + 2) dirs []
    let (names, idx) := indexAll [] (files ++ scanned)
    let r := runSched cfg choices (4 * (fs.files.length + 4)) { names := names, st := Coord.init idx, fs := fs } []
    some (r.1, idx, r.2.1, r.2.2)


end Txt

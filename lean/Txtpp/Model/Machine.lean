/-! The streaming machine of `Pp::run_internal` (pp/mod.rs:59-144: current directive, tail line,
    pending-newline flag) and the README-shaped two-phase specification parse → eval → render,
    both parametric in the directive semantics `Sem` (DESIGN 4.2). -/
namespace Refine

abbrev Str := List Char

/-- abstract directive semantics -/
structure Sem (D σ : Type) where
  detect   : Str → Option D
  badStart : D → Bool                       -- multi-line capable ∧ empty prefix
  addLine  : D → Str → Option D
  exec     : σ → D → Option (σ × Option Str)  -- none = error; some (_, none) = no output / diverted to tag
  text     : σ → Str → σ × Option Str        -- an ordinary line: tag injection; `none` = not written (dependency-collecting pass)
  le       : Str

variable {D σ : Type}

/-! ### the machine (mirrors pp/mod.rs:59-144) -/

structure MSt (D σ : Type) where
  cur : Option D
  st : σ
  pending : Bool
  out : Str

def emit (S : Sem D σ) (m : MSt D σ) (chunk : Str) (hasTail : Bool) : MSt D σ :=
  { m with out := m.out ++ (if m.pending then S.le else []) ++ chunk, pending := !hasTail }

/-- feed a line when there is no current directive -/
def feedFresh (S : Sem D σ) (m : MSt D σ) (line : Str) : Option (MSt D σ) :=
  match S.detect line with
  | some d => if S.badStart d then none else some { m with cur := some d }
  | none =>
    match S.text m.st line with
    | (st', some l') => some (emit S { m with st := st' } l' false)
    | (st', none) => some { m with st := st' }

def execD (S : Sem D σ) (m : MSt D σ) (d : D) (hasTail : Bool) : Option (MSt D σ) :=
  match S.exec m.st d with
  | none => none
  | some (st', none) => some { m with st := st', cur := none }
  | some (st', some c) => some (emit S { m with st := st', cur := none } c hasTail)

def feed (S : Sem D σ) (m : MSt D σ) (line : Str) : Option (MSt D σ) :=
  match m.cur with
  | none => feedFresh S m line
  | some d =>
    match S.addLine d line with
    | some d' => some { m with cur := some d' }
    | none =>
      match execD S m d true with
      | none => none
      | some m' => feedFresh S m' line

def feedAll (S : Sem D σ) : MSt D σ → List Str → Option (MSt D σ)
  | m, [] => some m
  | m, l :: ls => match feed S m l with
    | none => none
    | some m' => feedAll S m' ls

def finish (S : Sem D σ) (trailing : Bool) (m : MSt D σ) : Option (σ × Str) :=
  let m? := match m.cur with
    | none => some m
    | some d => execD S m d false
  match m? with
  | none => none
  | some m => some (m.st, m.out ++ (if m.pending && trailing then S.le else []))

def machine (S : Sem D σ) (trailing : Bool) (s0 : σ) (lines : List Str) : Option (σ × Str) :=
  match feedAll S ⟨none, s0, false, []⟩ lines with
  | none => none
  | some m => finish S trailing m

/-! ### the specification: parse, eval, render -/

inductive Block (D : Type) where
  | text (l : Str)
  | dir (d : D) (atEof : Bool)

/-- group lines into blocks; `open` is the directive currently being continued -/
def parse (S : Sem D σ) : Option D → List Str → Option (List (Block D))
  | none, [] => some []
  | some d, [] => some [.dir d true]
  | none, l :: ls =>
    match S.detect l with
    | some d => if S.badStart d then none else parse S (some d) ls
    | none => (parse S none ls).map (Block.text l :: ·)
  | some d, l :: ls =>
    match S.addLine d l with
    | some d' => parse S (some d') ls
    | none =>
      -- `d` ends here; `l` starts afresh
      match S.detect l with
      | some e => if S.badStart e then none else (parse S (some e) ls).map (Block.dir d false :: ·)
      | none => (parse S none ls).map (fun bs => Block.dir d false :: Block.text l :: bs)

structure Chunk where
  text : Str
  nlAfter : Bool      -- a line ending is owed after this chunk (text line, or directive that ended the file)

def eval (S : Sem D σ) : σ → List (Block D) → Option (σ × List Chunk)
  | s, [] => some (s, [])
  | s, .text l :: bs =>
    match S.text s l with
    | (s', some l') => (eval S s' bs).map (fun (s'', cs) => (s'', ⟨l', true⟩ :: cs))
    | (s', none) => eval S s' bs
  | s, .dir d atEof :: bs =>
    match S.exec s d with
    | none => none
    | some (s', none) => eval S s' bs
    | some (s', some c) => (eval S s' bs).map (fun (s'', cs) => (s'', ⟨c, atEof⟩ :: cs))

def render (le : Str) (trailing : Bool) : Bool → List Chunk → Str
  | pending, [] => if pending && trailing then le else []
  | pending, c :: cs => (if pending then le else []) ++ c.text ++ render le trailing c.nlAfter cs

def spec (S : Sem D σ) (trailing : Bool) (s0 : σ) (lines : List Str) : Option (σ × Str) :=
  match parse S none lines with
  | none => none
  | some bs => match eval S s0 bs with
    | none => none
    | some (s, cs) => some (s, render S.le trailing false cs)

end Refine

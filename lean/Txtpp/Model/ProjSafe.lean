import Txtpp.Model.Project
import Txtpp.Model.Safe
/-! Executable side conditions of the whole-project relational theorems (C08/C09): the stale set carried
    along the sequential reference run, pass by pass. The driver evaluates them on generated projects
    (how often do they hold?); `Lemmas/PassRelF.lean` and `Lemmas/ProjectRel.lean` prove what they imply. -/
namespace Txt
open Refine (Sem parse Block)

/-- `d` is a dependency directive in the tree `fs0` -/
def isDepB (cfg : Cfg) (fs0 : FS) (wd : Path) (d : Directive) : Bool :=
  (d.ty == .include || d.ty == .after) && (fs0.depOf cfg wd (d.args.headD [])).isSome

def PpMode.isFirst : PpMode → Bool
  | .firstExec => true
  | _ => false

/-- executable: `some Sfin` = safe, with the stale set after the last block (any set when the pass
    stops executing at a dependency directive) -/
def safeToB (cfg : Cfg) (fs0 : FS) (wd : Path) (first : Bool) : List (Block Directive) → List Path → Option (List Path)
  | [], S => some S
  | .text _ :: bs, S => safeToB cfg fs0 wd first bs S
  | .dir d _ :: bs, S =>
    if first && isDepB cfg fs0 wd d then some S
    else if (dirReads cfg fs0 wd d).all (fun p => !S.contains p) then safeToB cfg fs0 wd first bs (staleAfterDir cfg fs0 wd d S)
    else none

/-- what one build (or only-if-needed) pass does to the stale set, when the same kind of pass runs on
    both sides; `none` = the side condition of `runPass_relF` fails at this pass -/
def trSame (cfg : Cfg) (a : FS) (S : List Path) (src : Path) (first : Bool) (oc : Outcome) : Option (List Path) :=
  if S.contains src then none else
  match a.file? src, outputPath src with
  | some content, some o =>
    match srcBlocks cfg.mode (decodeLines (byteLines content.toList)).1 with
    | some bs =>
      if probesB cfg a src.dropLast (generated cfg a src.dropLast o bs ++ S) bs then
        match safeToB cfg a src.dropLast first bs (generated cfg a src.dropLast o bs ++ S) with
        | some Sfin => some (if oc = .ok then Sfin.filter (· != o) else generated cfg a src.dropLast o bs ++ S)
        | none => none
      else none
    | none => some S
  | _, _ => some S

/-- what one pass does to the stale set when a build pass runs on one side and an only-if-needed
    pass on the other -/
def trNeeded (cfg : Cfg) (a : FS) (S : List Path) (src : Path) (first : Bool) (oc : Outcome) : Option (List Path) :=
  if S.contains src then none else
  match a.file? src, outputPath src with
  | some content, some o =>
    if a.isDir o then none else
    match srcBlocks .build (decodeLines (byteLines content.toList)).1 with
    | some bs =>
      if probesB cfg a src.dropLast (generated cfg a src.dropLast o bs ++ S) bs then
        match safeToB cfg a src.dropLast first bs (generated cfg a src.dropLast o bs ++ S) with
        | some Sfin => some (if oc = .ok then Sfin.filter (· != o) else generated cfg a src.dropLast o bs ++ S)
        | none => none
      else none
    | none => some (o :: S)
  | _, _ => some S

/-- the stale set carried along the sequential run of the coordinator: `tr` says what one pass does
    to it (`none` = the side condition of the pass-level theorem fails at this pass) -/
def loopStale (cfg : Cfg) (tr : FS → List Path → Path → Bool → Outcome → Option (List Path)) :
    Nat → PSt → List Path → Option (List Path)
  | 0, _, S => some S
  | fuel + 1, s, S =>
    match s.st.pool with
    | [] => some S
    | .pp f first :: rest =>
      let src := s.names.getD f []
      let (oc, fs') := runPass cfg s.fs src first
      let st := { s.st with pool := rest }
      match tr s.fs S src first oc with
      | none => none
      | some S' =>
        match oc with
        | .err => some S'
        | .ok =>
          (match Coord.handle st (.ok f) with
           | .cont st' => loopStale cfg tr fuel { s with st := st', fs := fs' } S'
           | .fail => some S'
           | .panic => some S')
        | .hasDeps deps =>
          let (names', idx) := indexAll s.names (deps.map (fun d => (splitOn '/' d)))
          (match Coord.handle st (.hasDeps f idx) with
           | .cont st' => loopStale cfg tr fuel { names := names', st := st', fs := fs' } S'
           | .fail => some S'
           | .panic => some S')

/-- the initial coordinator state of a whole run, `none` = the inputs do not resolve -/
def projStart (cfg : Cfg) (fs : FS) (inputs : List Str) : Option PSt :=
  match resolveInputs cfg fs inputs with
  | none => none
  | some (files, dirs) =>
    let scanned := scanAll fs cfg.recursive (fs.dirs.length + dirs.length + 2) dirs []
    let (names, idx) := indexAll [] (files ++ scanned)
    some { names := names, st := Coord.init idx, fs := fs }

def projFuel (fs : FS) : Nat := 4 * (fs.files.length + 4)

/-- the stale set after a whole run from `fs` (sequential reference schedule), `none` = some pass
    fails the side condition -/
def projStale (cfg : Cfg) (tr : FS → List Path → Path → Bool → Outcome → Option (List Path)) (fs : FS)
    (inputs : List Str) (S : List Path) : Option (List Path) :=
  match projStart cfg fs inputs with
  | none => some S
  | some s => loopStale cfg tr (projFuel fs) s S

/-- nothing is ever stale between an only-if-needed run and a verify run: the side condition is only
    that no output path is a directory -/
def trVerify (a : FS) (S : List Path) (src : Path) (_first : Bool) (_oc : Outcome) : Option (List Path) :=
  match outputPath src with
  | some o => if a.isDir o then none else if S.isEmpty then some [] else none
  | none => if S.isEmpty then some [] else none

def isSrcPath (p : Path) : Bool := match p.getLast? with | some n => PathName.isTxtppFile n | none => false

/-- the paths of the tree that carry a txtpp source name, in the order of the tree -/
def srcPaths (fs : FS) : List Path := (fs.files.map (·.1)).filter isSrcPath

end Txt

import Txtpp.Model.Pp
/-! The entry layer (`src/main.rs`): how the parsed command line becomes the `Config` of a run.
    clap does the parsing; this is `Cli::apply_to` / `Command::apply_to` / `Flags::apply_to` /
    `BuildFlags::apply_to` on the parsed form. -/
namespace Txt

inductive Verbosity where
  | quiet | normal | verbose
deriving Repr, DecidableEq

/-- `Flags` (every command has them) -/
structure CliFlags where
  quiet : Bool := false
  verbose : Bool := false
  recursive : Bool := false
  threads : Nat := 4
  inputs : List Str := [['.']]
deriving Repr, DecidableEq

/-- `BuildFlags` (build and verify have them, clean does not) -/
structure CliBuildFlags where
  shell : Str := []
  noTrailingNewline : Bool := false
deriving Repr, DecidableEq

inductive CliSub where
  | clean (flags : CliFlags)
  | verify (flags : CliFlags) (build : CliBuildFlags)
deriving Repr, DecidableEq

/-- the parsed command line: flags written in front of a sub-command are parsed into `flags` / `build` /
    `needed` of the top level, those behind it into the sub-command's own -/
structure CliParsed where
  sub : Option CliSub := none
  flags : CliFlags := {}
  build : CliBuildFlags := {}
  needed : Bool := false
deriving Repr, DecidableEq

/-- `Config` (without the base directory, which is always `.` for the CLI) -/
structure RunConfig where
  shellCmd : Str := []
  inputs : List Str := [['.']]
  recursive : Bool := false
  numThreads : Nat := 4
  mode : Mode := .build
  verbosity : Verbosity := .normal
  trailingNewline : Bool := true
deriving Repr, DecidableEq

def CliFlags.applyTo (f : CliFlags) (c : RunConfig) : RunConfig :=
  { c with
    verbosity := if f.quiet then .quiet else if f.verbose then .verbose else c.verbosity,
    recursive := f.recursive, numThreads := f.threads, inputs := f.inputs }

def CliBuildFlags.applyTo (b : CliBuildFlags) (c : RunConfig) : RunConfig :=
  { c with shellCmd := b.shell, trailingNewline := !b.noTrailingNewline }

/-- `Cli::apply_to` on `Config::default()` -/
def CliParsed.config (p : CliParsed) : RunConfig :=
  let c : RunConfig := {}
  match p.sub with
  | some (.clean f) => f.applyTo { c with mode := .clean }
  | some (.verify f b) => b.applyTo (f.applyTo { c with mode := .verify })
  | none => p.build.applyTo (p.flags.applyTo { c with mode := if p.needed then .inMemory else .build })

/-- what `std::env::var("TXTPP_FILE")` can give `main` -/
inductive EnvVar where
  | unset                 -- `Err(NotPresent)`
  | notUnicode            -- `Err(NotUnicode)`: set, but not valid UTF-8 (`Shell::run` never sets such a value: it passes a `&str`)
  | val (s : Str)         -- `Ok(s)`
deriving Repr, DecidableEq

/-- the first statement of `main`: `if let Ok(f) = env::var(TXTPP_FILE) { if !f.is_empty() { return FAILURE } }` -/
def EnvVar.refuses : EnvVar → Bool
  | .val s => !s.isEmpty
  | _ => false

/-- `main`: the guard, then `Cli::parse` + `apply_to`; `none` = "Cannot run txtpp as a subcommand!", exit status failure,
    before the command line is even looked at -/
def entry (txtppFile : EnvVar) (p : CliParsed) : Option RunConfig :=
  if txtppFile.refuses then none else some p.config

end Txt

import Txtpp.Model.Fs
/-! Static read/write footprint of a source text (used by the relational theorems of C06/C08/C09 and,
    executably, by the driver to measure on how many generated sources their side condition holds). -/
namespace Txt
open Refine (Sem parse Block)

/-- a world in which nothing can be done: used only to name the grammar of a source text -/
def nullWorld : World Unit where
  readInclude _ _ := none
  depOf _ _ := none
  run _ _ := (none, ())
  writeTemp _ _ _ := none
  removeTemp _ _ := none

/-- the blocks (text lines and complete directives) of a source text, as the preprocessor groups
    them in `mode` (clean mode reads a prefix-less multi-line directive start as text) -/
def srcBlocks (mode : Mode) (lines : List Str) : Option (List (Block Directive)) :=
  parse (txtppSem nullWorld mode []) none lines

/-- the paths whose *content* a vocabulary command reads -/
def catReads (cfg : Cfg) (fs : FS) (wd : Path) (acts : List (Str × Str)) : List Path :=
  acts.filterMap (fun ka => if ka.1 = "cat".toList then fs.resolve cfg wd ka.2 else none)

/-- the paths whose content the command `cmd` reads -/
def cmdReads (cfg : Cfg) (fs : FS) (wd : Path) (cmd : Str) : List Path :=
  match cfg.cmds.find? (fun kv => kv.1 == cmd) with
  | none => []
  | some (_, acts) => catReads cfg fs wd acts

/-- the candidate names `get_txtpp_file` tests for existence -/
def nameCands (n : Str) : List Str :=
  if PathName.isTxtppFile n then [] else
  match PathName.extension n with
  | some e =>
    [PathName.setExtension n (e ++ '.' :: PathName.txtpp),
     PathName.setExtension (PathName.setExtension (PathName.setExtension n (e ++ '.' :: PathName.txtpp)) []) (PathName.txtpp ++ '.' :: e)]
  | none => [PathName.setExtension n PathName.txtpp]

/-- the paths whose *existence* the dependency lookup for `arg` tests -/
def depProbes (cfg : Cfg) (fs : FS) (wd : Path) (arg : Str) : List Path :=
  match depSplit cfg wd arg with
  | none => []
  | some (parentComps, name) =>
    (nameCands name).filterMap (fun cand => fs.walk [] (parentComps ++ [cand]))

/-- the path a `temp` block writes when it is executed -/
def dirWrites (cfg : Cfg) (fs0 : FS) (wd : Path) (d : Directive) : Option Path :=
  if d.ty = .temp then
    match d.args with
    | t :: _ => if isTxtppPath t then none else fs0.resolve cfg wd t
    | [] => none
  else none

/-- the paths whose content the execution of a block reads -/
def dirReads (cfg : Cfg) (fs0 : FS) (wd : Path) (d : Directive) : List Path :=
  match d.ty with
  | .include => (fs0.resolve cfg wd (d.args.headD [])).toList
  | .run => cmdReads cfg fs0 wd (joinWith [' '] d.args)
  | _ => []

/-- the paths whose existence the dependency lookup of a block tests -/
def dirProbes (cfg : Cfg) (fs0 : FS) (wd : Path) (d : Directive) : List Path :=
  if d.ty = .include ∨ d.ty = .after then depProbes cfg fs0 wd (d.args.headD []) else []

def staleAfterDir (cfg : Cfg) (fs0 : FS) (wd : Path) (d : Directive) (S : List Path) : List Path :=
  match dirWrites cfg fs0 wd d with
  | some p => S.filter (· != p)
  | none => S

/-- the stale set after the output has been opened: build truncates it on both sides -/
def staleOpen (mode : Mode) (S : List Path) (o : Path) : List Path :=
  match mode with
  | .build => S.filter (· != o)
  | _ => S

/-- the paths a pass over these blocks generates: the output and the targets of its temp blocks -/
def generated (cfg : Cfg) (fs0 : FS) (wd : Path) (o : Path) (bs : List (Block Directive)) : List Path :=
  o :: bs.filterMap (fun b => match b with | .dir d _ => dirWrites cfg fs0 wd d | .text _ => none)


/-- executable form of `Safe` -/
def safeB (cfg : Cfg) (fs0 : FS) (wd : Path) : List (Block Directive) → List Path → Bool
  | [], _ => true
  | .text _ :: bs, S => safeB cfg fs0 wd bs S
  | .dir d _ :: bs, S => (dirReads cfg fs0 wd d).all (fun p => !S.contains p) && safeB cfg fs0 wd bs (staleAfterDir cfg fs0 wd d S)

/-- executable form of `ProbesOK` -/
def probesB (cfg : Cfg) (fs0 : FS) (wd : Path) (S0 : List Path) (bs : List (Block Directive)) : Bool :=
  bs.all (fun b => match b with
    | .dir d _ => (dirProbes cfg fs0 wd d).all (fun p => !S0.contains p)
    | .text _ => true)

/-- the side condition of the pass-level theorems for one source of a tree, with everything the pass
    generates taken as stale: `none` = not a readable, parseable txtpp source -/
def srcSafeB (cfg : Cfg) (fs : FS) (src : Path) : Option Bool :=
  match fs.file? src, outputPath src with
  | some content, some o =>
    match srcBlocks cfg.mode (decodeLines (byteLines content.toList)).1 with
    | some bs =>
      let wd := src.dropLast
      let S := generated cfg fs wd o bs
      some (!S.contains src && safeB cfg fs wd bs S && probesB cfg fs wd S bs && !fs.isDir o && !S.tail.contains o)
    | none => none
  | _, _ => none

end Txt

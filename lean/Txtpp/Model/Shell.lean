import Txtpp.Model.Text
/-! `Shell::new` / `Shell::run` (src/fs/shell.rs): how the configured shell command line and the command of
    a `run` directive become the argument vector of the child process. -/
namespace Txt

/-- `str::split_whitespace` -/
def splitWhitespace (s : Str) : List Str :=
  let rec go : Str → Str → List Str
    | [], acc => if acc.isEmpty then [] else [acc.reverse]
    | c :: cs, acc =>
      if isWs c then (if acc.isEmpty then go cs [] else acc.reverse :: go cs [])
      else go cs (c :: acc)
  go s []

/-- `Shell::new`: executable and fixed arguments; an empty (or blank) setting means the platform default `sh -c` -/
def shellOf (cmd : Str) : Str × List Str :=
  match splitWhitespace cmd with
  | [] => ("sh".toList, ["-c".toList])
  | exe :: args => (exe, args)

/-- the argument vector `Shell::run` starts: executable, the fixed arguments, then the command as ONE argument -/
def shellArgv (shellCmd command : Str) : List Str :=
  let (exe, args) := shellOf shellCmd
  exe :: args ++ [command]

end Txt

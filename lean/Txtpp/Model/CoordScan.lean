import Txtpp.Model.Coord
/-! Directory scan tasks on top of the file coordinator: `execute_directory` with the
    already-scheduled set (`Txtpp.dirs`, the repair of finding F4), the shared done/total
    accounting of `Progress`, and the `TaskResult::ScanDir` branch of the coordinator loop. -/
namespace Coord

abbrev Dir := Nat

structure ScanWorld extends World where
  dirFiles : Dir → List File     -- txtpp files directly in the directory
  dirSubs : Dir → List Dir       -- sub-directories reported by the scan (none unless recursive); may repeat / loop
  scanFails : Dir → Bool

structure SSt where
  st : St
  dirs : List Dir          -- directories already scheduled for scanning
  scans : List Dir         -- scan tasks in flight
  stotal : Nat             -- share of `total_count` that is due to directories
  sdone : Nat              -- share of `done_count` that is due to directories

/-- `execute_directory`: the caller has already counted the directory in `total` -/
def execDir (x : SSt) (d : Dir) : SSt :=
  if x.dirs.contains d then { x with sdone := x.sdone + 1 }
  else { x with dirs := d :: x.dirs, scans := x.scans ++ [d] }

def execDirs (x : SSt) (ds : List Dir) : SSt := ds.foldl execDir x

/-- `run_internal` before the loop: `add_total(subdirs.len())`, input files, input directories -/
def sinit (files : List File) (ds : List Dir) : SSt :=
  execDirs ⟨init files, [], [], ds.length, 0⟩ ds

/-- the `TaskResult::ScanDir` branch; `none` = the run fails -/
def handleScan (w : ScanWorld) (x : SSt) (d : Dir) : Option SSt :=
  if w.scanFails d then none
  else
    let x1 : SSt := { x with sdone := x.sdone + 1, stotal := x.stotal + (w.dirSubs d).length,
                             st := execFiles x.st (w.dirFiles d) true }
    some (execDirs x1 (w.dirSubs d))

/-- `Progress::is_done` on the shared counters -/
def SSt.isDone (x : SSt) : Bool := x.st.done + x.sdone == x.st.total + x.stotal

inductive SStep (w : ScanWorld) : SSt → SSt → Prop where
  | scan (x x' : SSt) (d : Dir) (hd : d ∈ x.scans)
      (h : handleScan w { x with scans := x.scans.erase d } d = some x') : SStep w x x'
  | pp (x : SSt) (s' : St) (t : Task) (ht : t ∈ x.st.pool)
      (h : handle { x.st with pool := x.st.pool.erase t } (w.toWorld.result t) = .cont s') :
      SStep w x { x with st := s' }

inductive SReach (w : ScanWorld) (files : List File) (ds : List Dir) : SSt → Prop where
  | init : SReach w files ds (sinit files ds)
  | step (x x') : SReach w files ds x → SStep w x x' → SReach w files ds x'

end Coord

import Txtpp.Lemmas.PathNameFacts
import Txtpp.Lemmas.CliFacts
import Txtpp.Lemmas.SeenClosure
import Txtpp.Lemmas.Hermetic
import Txtpp.Lemmas.ScanSpec
import Txtpp.Lemmas.Interning
/-!
# Property C11 — exactly the requested sources are processed and outputs are named correctly

The naming algebra (`PathName`: `std::path` extension rules + `fs/path/mod.rs`) as theorems for
*all* names; which files get processed (`resolve_inputs`, `scan_dir`, dependency closure, once
each) is tied to the code by correspondence M8 on generated trees and input lists.
-/
namespace C11
open PathName

/-- `foo.txtpp` → `foo` (for every non-empty `foo` that is not itself `*.txtpp`; dots allowed) -/
theorem out_txtpp (foo : Str) (h1 : foo ≠ []) (h2 : extension foo ≠ some txtpp) :
    removeTxtpp (foo ++ '.' :: txtpp) = some foo := PathName.out_txtpp foo h1 h2

/-- `foo.ext.txtpp` → `foo.ext` -/
theorem out_ext_txtpp (foo ext : Str) (h1 : foo ≠ []) (h2 : '.' ∉ ext) (h3 : ext ≠ []) (h4 : ext ≠ txtpp) :
    removeTxtpp ((foo ++ '.' :: ext) ++ '.' :: txtpp) = some (foo ++ '.' :: ext) :=
  PathName.out_ext_txtpp foo ext h1 h2 h3 h4

/-- `foo.txtpp.ext` is a txtpp source and → `foo.ext`, also when `foo` contains dots
(`lib.min.txtpp.js` → `lib.min.js`; true of the repaired tree, finding F6) -/
theorem out_txtpp_ext (foo ext : Str) (h1 : foo ≠ []) (h2 : '.' ∉ ext) (h3 : ext ≠ []) (h4 : ext ≠ txtpp) :
    isTxtppFile ((foo ++ '.' :: txtpp) ++ '.' :: ext) = true ∧
    removeTxtpp ((foo ++ '.' :: txtpp) ++ '.' :: ext) = some (foo ++ '.' :: ext) :=
  PathName.out_txtpp_ext foo ext h1 h2 h3 h4

/-- naming a file by its output name: whichever source `get_txtpp_file` finds (it tries
`n.txtpp`-style first, then `stem.txtpp.ext`), its output is exactly `n`, and it exists -/
theorem named_by_output_finds_its_source (ex : Str → Bool) (n s : Str) (hn : n ≠ []) (hwd : NoTrailingDot n)
    (h : getTxtppFile ex n = some s) : removeTxtpp s = some n ∧ ex s = true := get_remove ex n s hn hwd h

/-- a txtpp source is never looked up as an output name -/
theorem source_name_not_resolved (ex : Str → Bool) (n : Str) (h : isTxtppFile n = true) : getTxtppFile ex n = none := by
  simp [getTxtppFile, h]

/-- look-alikes that are not txtpp files: `txtpp`, `.txtpp`, `a.txtpp.b.c`, `a.txt`, `a.txtpp~` -/
theorem lookalikes_not_txtpp :
    isTxtppFile txtpp = false ∧ isTxtppFile ('.' :: txtpp) = false ∧
    isTxtppFile ['a', '.', 't', 'x', 't', 'p', 'p', '.', 'b', '.', 'c'] = false ∧
    isTxtppFile ['a', '.', 't', 'x', 't'] = false ∧ isTxtppFile ['a', '.', 't', 'x', 't', 'p', 'p', '~'] = false :=
  PathName.lookalikes_not_txtpp

/-- the processed set is contained in the dependency closure of the inputs (named and scanned
files): the coordinator never processes a file that is not reachable from an input -/
theorem processed_within_closure (w : Coord.World) (inputs : List Coord.File) (s : Coord.St) (h : Coord.Reach w inputs s) :
    ∀ f ∈ s.seen, ∃ i ∈ inputs, Coord.Path w.deps i f := Coord.seen_reachable w inputs s h

/-- exactly: at a successful exit (build / verify) the set of files that got a final pass is the
dependency closure of the input files (named and scanned), no more and no less -/
theorem processed_set_eq_closure (w : Coord.World) (inputs : List Coord.File) (s : Coord.St) (h : Coord.Reach w inputs s)
    (hq : s.pool = []) (hno : ¬ Coord.Leftover s) (f : Coord.File) :
    f ∈ s.dm.fin ↔ ∃ i ∈ inputs, Coord.Path w.deps i f := Coord.success_fin_eq_closure w inputs s h hq hno f

/-- … and at a successful exit it is all of it that was seen, each finished exactly once -/
theorem processed_once_each (w : Coord.World) (inputs : List Coord.File) (s : Coord.St) (h : Coord.Reach w inputs s) :
    s.dm.fin.Nodup ∧ ∀ f ∈ s.dm.fin, f ∈ s.seen :=
  ⟨(Coord.reach_inv w inputs s h).finND, (Coord.reach_inv w inputs s h).finSeen⟩

example : removeTxtpp ['l', 'i', 'b', '.', 'm', 'i', 'n', '.', 't', 'x', 't', 'p', 'p', '.', 'j', 's'] =
    some ['l', 'i', 'b', '.', 'm', 'i', 'n', '.', 'j', 's'] := by decide

/-- **Directory inputs.** With the fuel `Txtpp::run` gives it, the directory walk finds exactly the
txtpp-named regular files that lie directly inside an input directory or - recursive mode only - inside
a directory below one: no other file, nothing from a directory that was not requested, and nothing is
missed however deep or wide the tree is. -/
theorem directory_inputs_find_exactly_the_sources_below (fs : Txt.FS) (recursive : Bool) (dirs : List Txt.Path) (p : Txt.Path) :
    p ∈ Txt.scanAll fs recursive (fs.dirs.length + dirs.length + 2) dirs [] ↔
      ∃ d, Txt.Desc fs recursive dirs d ∧ Txt.IsSrcIn fs d p :=
  Txt.scanAll_spec fs recursive dirs p

/-- without `-r` only the input directories themselves are looked at -/
theorem non_recursive_scans_only_the_inputs (fs : Txt.FS) (dirs : List Txt.Path) (d : Txt.Path)
    (h : Txt.Desc fs false dirs d) : d ∈ dirs := by
  induction h with
  | root hm => exact hm
  | child hr _ _ _ => simp at hr

/-- a file found by the walk is a txtpp-named file of the tree whose parent is the scanned directory -/
theorem scanned_file_is_a_source (fs : Txt.FS) (r : Bool) (d p : Txt.Path) (h : p ∈ (Txt.scanDir fs r d).1) :
    (∃ b, (p, b) ∈ fs.files) ∧ p.dropLast = d ∧ ∃ n, p.getLast? = some n ∧ PathName.isTxtppFile n = true := by
  obtain ⟨h1, _, h3, h4⟩ := (Txt.mem_scanDir_files fs r d p).1 h
  exact ⟨h1, h3, h4⟩

/-- **Naming the same file several ways processes it once (file table).** Paths are interned after OS
path resolution; two inputs (or an input and a scanned or required file) that resolve to the same
path get the same file index, and different paths get different indices - so for the coordinator they
are one file, which `processed_once_each` completes once. -/
theorem same_path_same_file (ps names : List Txt.Path) (hn : names.Nodup) (i j : Nat) (hi : i < ps.length) (hj : j < ps.length)
    (h : ps[i] = ps[j]) :
    (Txt.indexAll names ps).2[i]'(by rw [(Txt.indexAll_spec ps names).1]; exact hi) =
    (Txt.indexAll names ps).2[j]'(by rw [(Txt.indexAll_spec ps names).1]; exact hj) :=
  Txt.indexAll_same ps names hn i j hi hj h

/-- the table is faithful: every index designates its path, the table stays duplicate-free -/
theorem file_table_faithful (ps names : List Txt.Path) :
    (names.Nodup → (Txt.indexAll names ps).1.Nodup) ∧
    ∀ k (hk : k < ps.length), ∃ hk' : k < (Txt.indexAll names ps).2.length,
      (Txt.indexAll names ps).1.getD ((Txt.indexAll names ps).2[k]) [] = ps[k] ∧
      (Txt.indexAll names ps).2[k] < (Txt.indexAll names ps).1.length :=
  ⟨(Txt.indexAll_spec ps names).2.2.1, (Txt.indexAll_spec ps names).2.2.2⟩

/-- spellings with `.`, empty components and `d/..` resolve to the same path -/
theorem dot_components_do_not_matter (fs : Txt.FS) (cur : Txt.Path) (cs : List (List Char)) (h : fs.isDir cur = true) :
    fs.walk cur (Txt.dot :: cs) = fs.walk cur cs ∧ fs.walk cur ([] :: cs) = fs.walk cur cs := Txt.walk_dot fs cur cs h

theorem down_and_up_is_identity (fs : Txt.FS) (cur : Txt.Path) (c : List Char) (cs : List (List Char)) (h : fs.isDir cur = true)
    (hc : fs.isDir (cur ++ [c]) = true) (h1 : c ≠ []) (h2 : c ≠ Txt.dot) (h3 : c ≠ Txt.dotdot) :
    fs.walk cur (c :: Txt.dotdot :: cs) = fs.walk cur cs := Txt.walk_down_up fs cur c cs h hc h1 h2 h3

/-- entry layer: the inputs and the recursion flag of the run are those of the command that runs -/
theorem cli_inputs_and_recursion (p : Txt.CliParsed) :
    (p.sub = none → p.config.inputs = p.flags.inputs ∧ p.config.recursive = p.flags.recursive) ∧
    (∀ f, p.sub = some (.clean f) → p.config.inputs = f.inputs ∧ p.config.recursive = f.recursive) ∧
    (∀ f b, p.sub = some (.verify f b) → p.config.inputs = f.inputs ∧ p.config.recursive = f.recursive) :=
  ⟨fun h => ⟨(Txt.build_mode p h).2.2.1, (Txt.build_mode p h).2.1⟩,
   fun f h => ⟨(Txt.clean_mode p f h).2.2.1, (Txt.clean_mode p f h).2.1⟩,
   fun f b h => ⟨(Txt.verify_mode p f b h).2.2.1, (Txt.verify_mode p f b h).2.1⟩⟩

end C11

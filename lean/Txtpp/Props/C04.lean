import Txtpp.Lemmas.Term
import Txtpp.Lemmas.Failing
/-!
# Property C04 — no false success: a failure in any file fails the whole run
-/
namespace C04
open Coord

/-- a delivered error ends the run with a failure, whatever else is in flight -/
theorem err_delivered_fails (s : St) : handle s .err = .fail := rfl

/-- the result of a failing pass is an error, wherever the file sits in the graph -/
theorem failing_pass_is_err (w : World) (f : File) :
    (w.failFinal f = true → w.result (.pp f false) = .err) ∧
    (w.failFirst f = true → w.result (.pp f true) = .err) ∧
    (w.deps f = [] → w.failFinal f = true → w.result (.pp f true) = .err) := by
  refine ⟨?_, ?_, ?_⟩
  · intro h; simp [World.result, h]
  · intro h; by_cases hd : w.deps f = [] <;> simp [World.result, h, hd]
  · intro hd h; simp [World.result, h, hd]

/-- only a non-failing pass of `a` itself reports `ok a` -/
theorem result_ok (w : World) (a b : File) (first : Bool) (h : w.result (.pp a first) = .ok b) :
    b = a ∧ w.failFinal a = false := Coord.result_ok w a b first h

/-- a file whose final pass fails is never finished: in no reachable state (i.e. while no error has
been delivered) is it in the finished set — so a run that reports success cannot contain it -/
theorem failing_never_finished (w : World) (inputs : List File) (s : St) (h : Reach w inputs s) (f : File)
    (hf : w.failFinal f = true) : f ∉ s.dm.fin := Coord.failing_never_finished w inputs s h f hf

/-- success ⇒ every seen file finished (C03) ⇒ none of them fails: a run over a project in which a
required file fails cannot end in a state that reports success -/
theorem fails_required_fails (w : World) (inputs : List File) (s : St) (h : Reach w inputs s) (hq : s.pool = [])
    (hno : ¬ Leftover s) (f : File) (hseen : f ∈ s.seen) : w.failFinal f = false := by
  cases hf : w.failFinal f with
  | false => rfl
  | true =>
    have hfin : f ∈ s.dm.fin := by
      rcases quiescent_cover w inputs s h hq f hseen with ⟨d, hd⟩ | h'
      · exact absurd ⟨d, f, hd⟩ hno
      · exact h'
    exact absurd hfin (failing_never_finished w inputs s h f hf)

end C04

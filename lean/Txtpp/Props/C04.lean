import Txtpp.Lemmas.Term
/-!
# Property C04 — no false success: a failure in any file fails the whole run
-/
namespace C04
open Coord

/-- a delivered error ends the run with a failure, whatever else is in flight -/
theorem err_delivered_fails (s : St) : handle s .err = .fail := rfl

/-- the result of a failing pass is an error, wherever the file sits in the graph -/
theorem failing_pass_is_err (w : World) (f : File) :
    (w.failFinal f = true → w.result (.pp f false) = .err) ∧
    (w.failFirst f = true → w.result (.pp f true) = .err) ∧
    (w.deps f = [] → w.failFinal f = true → w.result (.pp f true) = .err) := by
  refine ⟨?_, ?_, ?_⟩
  · intro h; simp [World.result, h]
  · intro h; by_cases hd : w.deps f = [] <;> simp [World.result, h, hd]
  · intro hd h; simp [World.result, h, hd]

/-- only a non-failing pass of `a` itself reports `ok a` -/
theorem result_ok (w : World) (a b : File) (first : Bool) (h : w.result (.pp a first) = .ok b) :
    b = a ∧ w.failFinal a = false := by
  cases first with
  | false =>
    simp only [World.result] at h
    split at h
    · cases h
    · rename_i hf; cases h; exact ⟨rfl, by simpa using hf⟩
  | true =>
    simp only [World.result] at h
    split at h
    · split at h
      · cases h
      · rename_i hf; cases h
        simp only [Bool.or_eq_true, not_or, Bool.not_eq_true] at hf
        exact ⟨rfl, hf.2⟩
    · split at h <;> cases h

/-- a file whose final pass fails is never finished: in no reachable state (i.e. while no error has
been delivered) is it in the finished set — so a run that reports success cannot contain it -/
theorem failing_never_finished (w : World) (inputs : List File) (s : St) (h : Reach w inputs s) (f : File)
    (hf : w.failFinal f = true) : f ∉ s.dm.fin := by
  induction h with
  | init =>
    have : (init inputs).dm = _ := execFiles_dm _ _ _
    rw [this]; simp
  | step s s' hr hs ih =>
    cases hs with
    | deliver t ht hc =>
      cases t with
      | pp a first =>
        by_cases hok : ∃ b, w.result (.pp a first) = .ok b
        · obtain ⟨b, hb⟩ := hok
          rw [hb] at hc
          have hfin := handle_ok_fin _ _ _ hc
          rw [hfin]
          simp only [List.mem_cons, not_or]
          refine ⟨?_, ih⟩
          -- the result `.ok b` comes from a pass of `b = a` that did not fail
          intro hfb
          obtain ⟨hba, hnf⟩ := result_ok w a b first hb
          rw [hfb, hba] at hf
          rw [hf] at hnf; cases hnf
        · -- hasDeps: fin unchanged; err: no step
          cases hr' : w.result (.pp a first) with
          | ok b => exact absurd ⟨b, hr'⟩ hok
          | err => rw [hr'] at hc; simp [handle] at hc
          | hasDeps a' ds =>
            rw [hr'] at hc
            have := handle_hasDeps_fin _ _ _ _ hc
            rw [this]; exact ih

/-- success ⇒ every seen file finished (C03) ⇒ none of them fails: a run over a project in which a
required file fails cannot end in a state that reports success -/
theorem fails_required_fails (w : World) (inputs : List File) (s : St) (h : Reach w inputs s) (hq : s.pool = [])
    (hno : ¬ Leftover s) (f : File) (hseen : f ∈ s.seen) : w.failFinal f = false := by
  cases hf : w.failFinal f with
  | false => rfl
  | true =>
    have hfin : f ∈ s.dm.fin := by
      rcases quiescent_cover w inputs s h hq f hseen with ⟨d, hd⟩ | h'
      · exact absurd ⟨d, f, hd⟩ hno
      · exact h'
    exact absurd hfin (failing_never_finished w inputs s h f hf)

end C04

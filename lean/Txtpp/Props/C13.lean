import Txtpp.Lemmas.MachineFacts
import Txtpp.Lemmas.CliFacts
import Txtpp.Model.Pp
import Txtpp.Lemmas.TrailingPass
/-!
# Property C13 — the trailing-newline option controls one final line ending and nothing else
-/
namespace C13
open Txt Refine

/-- For every directive semantics and every source: the two settings fail together, end in the
same state (tags, world: temp files and executed commands) and the outputs are identical except
for at most one line ending at the very end. -/
theorem trailing_only_final {D σ : Type} (S : Sem D σ) (s0 : σ) (lines : List (List Char)) :
    (machine S true s0 lines = none ∧ machine S false s0 lines = none) ∨
    (∃ s out, machine S false s0 lines = some (s, out) ∧
      (machine S true s0 lines = some (s, out) ∨ machine S true s0 lines = some (s, out ++ S.le))) :=
  Refine.trailing_only_final S s0 lines

/-- the same for the txtpp pass in every mode and both passes: same verdict, same dependencies,
same world afterwards (the option never changes temp files), outputs equal up to one final `le` -/
theorem pass_trailing {W : Type} (Wd : World W) (mode : Mode) (le : List Char) (first : Bool) (w : W)
    (lines : List (List Char)) :
    match ppPass Wd mode le first false w lines true, ppPass Wd mode le first true w lines true with
    | .err, .err => True
    | .hasDeps d w0, .hasDeps d1 w1 => d = d1 ∧ w0 = w1
    | .ok o w0, .ok o1 w1 => w0 = w1 ∧ (o1 = o ∨ o1 = o ++ le)
    | _, _ => False := by
  unfold ppPass
  simp only [Bool.not_true, Bool.false_eq_true, if_false]
  rcases Refine.trailing_only_final (txtppSem Wd mode le) ⟨TagState.empty, if first then .firstExec else .exec, w⟩ lines with
    ⟨h1, h0⟩ | ⟨s, out, h0, h1 | h1⟩
  · simp [h0, h1]
  · simp only [h0, h1]
    cases s.pm with
    | collect deps => simp
    | firstExec => cases (s.tags.hasTags && mode != .clean) <;> simp
    | exec => cases (s.tags.hasTags && mode != .clean) <;> simp
  · simp only [h0, h1]
    cases s.pm with
    | collect deps => simp
    | firstExec => cases (s.tags.hasTags && mode != .clean) <;> simp [txtppSem]
    | exec => cases (s.tags.hasTags && mode != .clean) <;> simp [txtppSem]

/-- With the option on, an output whose source ends with an ordinary text line (not a directive
line, not a continuation of the block before it) ends with that line followed by a line ending;
with the option off the final line ending is absent: `out_on = out_off ++ le`, and `out_off` ends
with the line as written (after tag substitution). -/
theorem trailing_text_last {D σ : Type} (S : Sem D σ) (s0 : σ) (ls : List (List Char)) (l : List Char)
    (hd : S.detect l = none) (hcont : ∀ d, S.addLine d l = none) (htext : ∀ s, ∃ l', (S.text s l).2 = some l')
    (s : σ) (out : List Char) (h : machine S false s0 (ls ++ [l]) = some (s, out)) :
    machine S true s0 (ls ++ [l]) = some (s, out ++ S.le) ∧
    ∃ pre l', out = pre ++ l' ∧ ∃ s', (S.text s' l).2 = some l' :=
  Refine.trailing_text_last S s0 ls l hd hcont htext s out h

/-- **One `preprocess` call on the file system (build mode)**: with the option on or off the outcome
is the same, every path other than the output path holds the same bytes afterwards (temp files,
sources, everything else), and the output text with the option on is the text with the option off, or
that text followed by exactly one line ending (the source's). -/
theorem option_changes_only_the_final_line_ending_of_the_output (cfg : Cfg) (hb : cfg.mode = .build) (fs : FS) (src : Path)
    (first : Bool) :
    (runPass (cfg.withTrailing false) fs src first).1 = (runPass (cfg.withTrailing true) fs src first).1 ∧
    (∀ q, outputPath src ≠ some q →
      (runPass (cfg.withTrailing false) fs src first).2.file? q = (runPass (cfg.withTrailing true) fs src first).2.file? q) ∧
    ((runPass (cfg.withTrailing false) fs src first).1 = .ok → ∃ o out le, outputPath src = some o ∧
      (runPass (cfg.withTrailing false) fs src first).2.file? o = some (encodeUtf8 out) ∧
      ((runPass (cfg.withTrailing true) fs src first).2.file? o = some (encodeUtf8 out) ∨
       (runPass (cfg.withTrailing true) fs src first).2.file? o = some (encodeUtf8 (out ++ le)))) :=
  runPass_trailing cfg hb fs src first

/-- entry layer: the option is `-n` and nothing else - on, unless `-n` is given to the command that
runs (build, only-if-needed build, verify); clean has no such option -/
theorem cli_trailing_option (p : CliParsed) :
    (p.sub = none → p.config.trailingNewline = !p.build.noTrailingNewline) ∧
    (∀ f b, p.sub = some (.verify f b) → p.config.trailingNewline = !b.noTrailingNewline) ∧
    (∀ f, p.sub = some (.clean f) → p.config.trailingNewline = true) := trailing_iff_not_n p

end C13

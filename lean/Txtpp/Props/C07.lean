import Txtpp.Lemmas.SinkFacts
/-!
# Property C07 — clean removes exactly what build generated and never executes anything
-/
namespace C07
open Txt

/-- clean never runs a command: the marker log after a clean pass is the log before it — for
every source, also one full of `run` directives -/
theorem clean_executes_nothing (cfg : Cfg) (fs : FS) (src : Path) (first : Bool) (hm : cfg.mode = .clean) :
    (runPass cfg fs src first).2.log = fs.log := runPass_clean_log cfg fs src first hm

/-- clean succeeds even when the source contains directive errors (prefix-less multi-line
directives, missing includes, failing commands, tag misuse, bad temp targets): the line loop of a
clean pass cannot fail -/
theorem clean_never_fails_on_directives {W : Type} (Wd : World W) (le : List Char) (first trailing : Bool) (w : W)
    (lines : List (List Char)) : ppPass Wd .clean le first trailing w lines true ≠ .err :=
  clean_pass_never_fails Wd le first trailing w lines

/-- clean creates nothing: a path that holds no file before a clean pass holds none after it -/
theorem clean_creates_nothing (cfg : Cfg) (hm : cfg.mode = .clean) (src : Path) (q : Path) (le : List Char) (first : Bool)
    (fs1 : FS) (lines : List (List Char)) (readOk : Bool) (h : fs1.file? q = none) :
    PassPost (fun fs => fs.file? q = none)
      (ppPass (fileWorld cfg src.dropLast (joinPath src)) cfg.mode le first cfg.trailing fs1 lines readOk) :=
  ppPass_fs_inv cfg src.dropLast (joinPath src) _ (by rw [hm]; exact removeTemp_creates_nothing cfg _ _ q) le first fs1 lines readOk h

/-- clean removes the output of the source it processes -/
theorem clean_removes_output (fs fs1 : FS) (o : Path) (h : sinkStart .clean fs o = some fs1) : fs1.file? o = none := by
  simp only [sinkStart] at h
  split at h
  · cases h; simp
  · rename_i hf
    split at h
    · simp at h
    · cases h
      simpa [FS.isFile] using hf

/-- a temp target whose name is a txtpp name is refused in every mode, so clean never deletes a
`.txtpp` file through a temp directive -/
theorem txtpp_temp_target_refused {W : Type} (Wd : World W) (le : List Char) (w : W) (target : List Char)
    (body : List (List Char)) (isClean : Bool) (h : isTxtppPath target = true) :
    execTemp Wd le w (target :: body) isClean = none := by
  simp [execTemp, h]

/-- everything a clean pass leaves untouched keeps its bytes (sources, included files, unrelated files) -/
theorem clean_keeps_untouched (cfg : Cfg) (fs : FS) (src : Path) (first : Bool) :
    Untouched fs (runPass cfg fs src first).2 := runPass_untouched cfg fs src first

end C07

import Txtpp.Lemmas.SinkFacts
import Txtpp.Lemmas.CliFacts
import Txtpp.Lemmas.CleanParse
import Txtpp.Lemmas.ProjectFacts
import Txtpp.Lemmas.CleanRestore
import Txtpp.Lemmas.CleanProject
/-!
# Property C07 — clean removes exactly what build generated and never executes anything
-/
namespace C07
open Txt

/-- clean never runs a command: the marker log after a clean pass is the log before it — for
every source, also one full of `run` directives -/
theorem clean_executes_nothing (cfg : Cfg) (fs : FS) (src : Path) (first : Bool) (hm : cfg.mode = .clean) :
    (runPass cfg fs src first).2.log = fs.log := runPass_clean_log cfg fs src first hm

/-- … the same for a complete clean run over any inputs: no command is executed at all -/
theorem clean_run_executes_nothing (cfg : Cfg) (hm : cfg.mode = .clean) (fs : FS) (inputs : List (List Char)) :
    (runProject cfg fs inputs).2.log = fs.log := runProject_clean_log cfg hm fs inputs

/-- clean succeeds even when the source contains directive errors (prefix-less multi-line
directives, missing includes, failing commands, tag misuse, bad temp targets): the line loop of a
clean pass cannot fail -/
theorem clean_never_fails_on_directives {W : Type} (Wd : World W) (le : List Char) (first trailing : Bool) (w : W)
    (lines : List (List Char)) : ppPass Wd .clean le first trailing w lines true ≠ .err :=
  clean_pass_never_fails Wd le first trailing w lines

/-- clean creates nothing: a path that holds no file before a clean pass holds none after it -/
theorem clean_creates_nothing (cfg : Cfg) (hm : cfg.mode = .clean) (src : Path) (q : Path) (le : List Char) (first : Bool)
    (fs1 : FS) (lines : List (List Char)) (readOk : Bool) (h : fs1.file? q = none) :
    PassPost (fun fs => fs.file? q = none)
      (ppPass (fileWorld cfg src.dropLast (joinPath src)) cfg.mode le first cfg.trailing fs1 lines readOk) :=
  ppPass_fs_inv cfg src.dropLast (joinPath src) _ (by rw [hm]; exact removeTemp_creates_nothing cfg _ _ q) le first fs1 lines readOk h

/-- clean removes the output of the source it processes -/
theorem clean_removes_output (fs fs1 : FS) (o : Path) (h : sinkStart .clean fs o = some fs1) : fs1.file? o = none := by
  simp only [sinkStart] at h
  split at h
  · cases h; simp
  · rename_i hf
    split at h
    · simp at h
    · cases h
      simpa [FS.isFile] using hf

/-- a temp target whose name is a txtpp name is refused in every mode, so clean never deletes a
`.txtpp` file through a temp directive -/
theorem txtpp_temp_target_refused {W : Type} (Wd : World W) (le : List Char) (w : W) (target : List Char)
    (body : List (List Char)) (isClean : Bool) (h : isTxtppPath target = true) :
    execTemp Wd le w (target :: body) isClean = none := by
  simp [execTemp, h]

/-- Clean removes exactly what build generated — the parse side: whenever build's grouping of the
source lines into directive blocks succeeds, clean groups the same lines into exactly the same
blocks (same directives, same arguments, same continuation lines). So text that build treated as
directive *content* (e.g. a `TXTPP#temp …` line escaped inside a `write`) is never a directive for
clean, and every temp block of build is a temp block of clean with the same target. -/
theorem clean_sees_builds_blocks {W : Type} (Wd : World W) (mode : Mode) (hm : mode ≠ .clean) (le : List Char)
    (lines : List (List Char)) (bs : List (Refine.Block Directive))
    (h : Refine.parse (txtppSem Wd mode le) none lines = some bs) :
    Refine.parse (txtppSem Wd .clean le) none lines = some bs :=
  parse_clean_eq_build Wd mode hm le lines none bs h

/-- … the effect side: for a temp block with target `t`, build writes `t`, clean removes `t` (and
ignores a failing removal); every other block is a no-op for clean -/
theorem temp_block_build_writes {W : Type} (Wd : World W) (le : List Char) (s : PpState W) (d : Directive)
    (target : List Char) (body : List (List Char))
    (hty : d.ty = .temp) (hargs : d.args = target :: body) (hpm : s.pm = .exec) (hn : isTxtppPath target = false) :
    execDirective Wd .build le s d =
      (match Wd.writeTemp s.w target (joinWith le body) with
       | none => none
       | some w' => some ({ s with w := w' }, none)) := build_temp_block Wd le s d target body hty hargs hpm hn

theorem temp_block_clean_removes {W : Type} (Wd : World W) (le : List Char) (s : PpState W) (d : Directive)
    (target : List Char) (body : List (List Char))
    (hty : d.ty = .temp) (hargs : d.args = target :: body) (hn : isTxtppPath target = false) :
    execDirective Wd .clean le s d =
      (match Wd.removeTemp s.w target with
       | none => some (s, none)
       | some w' => some ({ s with w := w' }, none)) := clean_temp_block Wd le s d target body hty hargs hn

theorem other_blocks_clean_noop {W : Type} (Wd : World W) (le : List Char) (s : PpState W) (d : Directive)
    (hty : d.ty ≠ .temp) : execDirective Wd .clean le s d = some (s, none) := clean_other_block Wd le s d hty

/-- everything a clean pass leaves untouched keeps its bytes (sources, included files, unrelated files) -/
theorem clean_keeps_untouched (cfg : Cfg) (fs : FS) (src : Path) (first : Bool) :
    Untouched fs (runPass cfg fs src first).2 := runPass_untouched cfg fs src first

/-- a clean pass over a readable source never fails on directives and never reports dependencies:
its line loop always ends `ok` -/
theorem clean_pass_always_ok {W : Type} (Wd : World W) (le : List Char) (first trailing : Bool) (w : W) (lines : List (List Char)) :
    ∃ out w', ppPass Wd .clean le first trailing w lines true = .ok out w' := clean_pass_ok Wd le first trailing w lines

/-- after a clean pass, neither the source's output nor any (non-`.txtpp`) target of a `temp` block of
its text exists -/
theorem clean_pass_removes_output_and_temp_targets (cfg : Cfg) (hm : cfg.mode = .clean) (fs fs' : FS) (src : Path) (first : Bool)
    (h : runPass cfg fs src first = (.ok, fs')) (p : Path) (content : ByteArray) (hc : fs.file? src = some content)
    (hp : outputPath src = some p ∨ TempTarget cfg fs src.dropLast (decodeLines (byteLines content.toList)).1 p) :
    fs'.file? p = none :=
  clean_runPass_removes cfg hm fs fs' src first h p ⟨content, hc, hp⟩

/-- … and nothing else is changed by it -/
theorem clean_pass_changes_nothing_else (cfg : Cfg) (fs : FS) (src : Path) (first : Bool) (q : Path)
    (hq : ¬ ∃ content, fs.file? src = some content ∧
        (outputPath src = some q ∨ TempTarget cfg fs src.dropLast (decodeLines (byteLines content.toList)).1 q)) :
    (runPass cfg fs src first).2.file? q = fs.file? q :=
  (runPass_scope cfg fs src first).2.2 q hq

/-- **build then clean restores the tree (one source).** In a tree where neither the output nor any
temp target of the source exists, a build pass that ends `ok` followed by a clean pass of the same
source (same options, mode clean) ends `ok` and leaves every path with exactly the bytes — or the
absence — it had before the build: clean removes exactly what build generated. (Whole projects: the
same per source; that clean does not follow `include`/`after` edges to sources that are not inputs
is the known finding F5.) -/
theorem build_then_clean_restores_one_source (cfg : Cfg) (hb : cfg.mode = .build) (fs fsB : FS) (src : Path) (first first' : Bool)
    (hfresh : ∀ p, (∃ content, fs.file? src = some content ∧
        (outputPath src = some p ∨ TempTarget cfg fs src.dropLast (decodeLines (byteLines content.toList)).1 p)) →
        fs.file? p = none)
    (hbuild : runPass cfg fs src first = (.ok, fsB)) :
    ∃ fsC, runPass cfg.toClean fsB src first' = (.ok, fsC) ∧ ∀ q, fsC.file? q = fs.file? q :=
  build_then_clean_restores cfg hb fs fsB src first first' hfresh hbuild

/-- entry layer: `txtpp clean …` runs in clean mode with its own flags; a `-N` (or anything else) in
front of the sub-command cannot turn it into a build -/
theorem cli_clean_maps_to_clean_mode (p : CliParsed) (f : CliFlags) (h : p.sub = some (.clean f)) :
    p.config.mode = .clean ∧ p.config.recursive = f.recursive ∧ p.config.inputs = f.inputs ∧
    ∀ fl bl n, ({ p with flags := fl, build := bl, needed := n } : CliParsed).config = p.config :=
  ⟨(clean_mode p f h).1, (clean_mode p f h).2.1, (clean_mode p f h).2.2.1, fun fl bl n => sub_ignores_top_level p _ h fl bl n⟩

/-- The mechanism of the known finding F5, as a theorem about the model (= the code): a clean pass never
reports dependencies, whatever `include` / `after` directives the source contains - so the coordinator
is never told about `.txtpp` dependencies in clean mode and only the resolved inputs are cleaned.
(`build a.txt` also builds what `a.txt` includes; `clean a.txt` removes only what `a.txt.txtpp` itself
generated. Documented in `Mode::Clean`; reported as KNOWN-FINDING by the C07 job, not repaired.) -/
theorem clean_never_reports_dependencies {W : Type} (Wd : World W) (le : List Char) (first trailing : Bool) (w : W)
    (lines : List (List Char)) (deps : List (List Char)) (w' : W) :
    ppPass Wd .clean le first trailing w lines true ≠ .hasDeps deps w' := by
  obtain ⟨out, w'', h⟩ := clean_pass_ok Wd le first trailing w lines
  rw [h]; simp

/-- **whole project, concrete model of `Txtpp::run`**: after a clean run that ends `ok`, for every source
the inputs resolve to - named as a file, or found by the (recursive) directory scans - neither its
output nor any (non-`.txtpp`) target of a `temp` block of its text exists any more. (Sources reached
only through `include`/`after` are not among them: known finding F5.) -/
theorem clean_run_removes_outputs_and_temp_files_of_all_inputs (cfg : Cfg) (hm : cfg.mode = .clean) (fs : FS)
    (inputs : List (List Char)) (hok : (runProject cfg fs inputs).1 = .ok) (files dirs : List Path)
    (hres : resolveInputs cfg fs inputs = some (files, dirs)) (src : Path)
    (hsrc : src ∈ files ++ scanAll fs cfg.recursive (fs.dirs.length + dirs.length + 2) dirs [])
    (content : ByteArray) (hc : fs.file? src = some content) (p : Path)
    (hp : outputPath src = some p ∨ TempTarget cfg fs src.dropLast (decodeLines (byteLines content.toList)).1 p) :
    (runProject cfg fs inputs).2.file? p = none :=
  clean_project_removes cfg hm fs inputs hok files dirs hres src hsrc p ⟨content, hc, hp⟩

/-- … and a clean run, whatever its verdict, only removes: no directory changes, and every path holds
afterwards the bytes it held before, or nothing -/
theorem clean_run_only_removes (cfg : Cfg) (hm : cfg.mode = .clean) (fs : FS) (inputs : List (List Char)) :
    (runProject cfg fs inputs).2.dirs = fs.dirs ∧
    ∀ q, (runProject cfg fs inputs).2.file? q = none ∨ (runProject cfg fs inputs).2.file? q = fs.file? q :=
  clean_project_only_removes cfg hm fs inputs

/-- a clean pass never reports dependencies to the coordinator (the mechanism of F5, at the level of `preprocess`) -/
theorem clean_pass_reports_no_dependencies (cfg : Cfg) (hm : cfg.mode = .clean) (fs : FS) (src : Path) (first : Bool)
    (deps : List (List Char)) : (runPass cfg fs src first).1 ≠ .hasDeps deps :=
  runPass_clean_no_deps cfg hm fs src first deps

end C07

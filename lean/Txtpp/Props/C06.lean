import Txtpp.Lemmas.SinkFacts
import Txtpp.Lemmas.CliFacts
import Txtpp.Lemmas.VerifyRel
import Txtpp.Lemmas.VerifyProject
import Txtpp.Lemmas.VerifyLockstep
/-!
# Property C06 — verify passes exactly when outputs are up to date, and is read-only
-/
namespace C06
open Txt

/-- the streaming comparison of `CtxOut::Verify` (remaining-length counter, chunk by chunk,
`rem = 0` at the end) succeeds exactly when the existing content is the concatenation of the
chunks: a changed, missing, extra byte anywhere, a truncation or an extension makes it fail -/
theorem stream_compare_iff {α : Type} [DecidableEq α] (existing : List α) (chunks : List (List α)) :
    verifyStream existing chunks = true ↔ existing = chunks.flatten := verifyStream_iff existing chunks

/-- a verify pass whose directives all succeed reports `ok` iff the output file holds exactly the
bytes a build would write now; and `done` never changes the file system -/
theorem verify_ok_iff_uptodate (fs2 : FS) (o : Path) (new : ByteArray) :
    (sinkEnd .verify fs2 o new).2 = fs2 ∧ ((sinkEnd .verify fs2 o new).1 = .ok ↔ fs2.file? o = some new) :=
  sinkEnd_verify fs2 o new

/-- a missing output fails, and opening an output for verification does not change anything -/
theorem verify_open_readonly (fs fs1 : FS) (o : Path) (h : sinkStart .verify fs o = some fs1) :
    fs1 = fs ∧ fs.pathExists o = true := sinkStart_verify fs fs1 o h

theorem verify_missing_fails (fs : FS) (o : Path) (h : fs.pathExists o = false) : sinkStart .verify fs o = none := by
  simp [sinkStart, h]

/-- verify is read-only: the only file-system operations of a verify pass are those of the
source's own temp directives and commands; whatever they preserve, the pass preserves —
in particular every untouched path keeps its bytes -/
theorem verify_untouched (cfg : Cfg) (fs : FS) (src : Path) (first : Bool) :
    Untouched fs (runPass cfg fs src first).2 := runPass_untouched cfg fs src first

theorem verify_pass_preserves (cfg : Cfg) (hm : cfg.mode = .verify) (src : Path) (I : FS → Prop)
    (hp : OpsPreserve (fileWorld cfg src.dropLast (joinPath src)) .verify I) (le : List Char) (first : Bool)
    (fs1 : FS) (lines : List (List Char)) (readOk : Bool) (hI : I fs1) :
    PassPost I (ppPass (fileWorld cfg src.dropLast (joinPath src)) cfg.mode le first cfg.trailing fs1 lines readOk) :=
  ppPass_fs_inv cfg src.dropLast (joinPath src) I (by rw [hm]; exact hp) le first fs1 lines readOk hI

/-- Project level (abstract in what a pass computes, for every dependency graph and schedule): in a
verify run over existing outputs `E` — the pass of a file fails exactly when its existing output
differs from the fresh output computed from the existing outputs of its dependencies — success
implies that every file in the dependency closure of the inputs was verified and holds exactly
the value a build would write now (`seqVal` = processing the files one at a time) … -/
theorem verify_success_means_uptodate {C : Type} (w : Coord.World) (R : Coord.Sem C) (hR : Coord.RenderLocal w R)
    (E : Coord.File → C) (hV : Coord.VerifyWorld w R E) (inputs : List Coord.File)
    (out0 : Coord.File → Coord.OutState C) (x : Coord.WSt C) (h : Coord.WReach w R inputs out0 x)
    (hq : x.st.pool = []) (hno : ¬ Coord.Leftover x.st) :
    (∀ f, (∃ i ∈ inputs, Coord.Path w.deps i f) → f ∈ x.st.dm.fin) ∧
    ∀ f ∈ x.st.dm.fin, E f = Coord.seqVal R x.st.dm.fin f :=
  Coord.verify_success_uptodate w R hR E hV inputs out0 x h hq hno

/-- … and conversely, when every output in the closure is up to date no task of the run reports an
error, while any mismatch that is reached is an error -/
theorem verify_uptodate_means_no_error {C : Type} (w : Coord.World) (R : Coord.Sem C) (E : Coord.File → C)
    (hV : Coord.VerifyWorld w R E) (inputs : List Coord.File) (s : Coord.St) (h : Coord.Reach w inputs s)
    (hup : ∀ f, (∃ i ∈ inputs, Coord.Path w.deps i f) → E f = R.render f E) (t : Coord.Task) (ht : t ∈ s.pool) :
    w.result t ≠ .err := Coord.verify_uptodate_never_errs w R E hV inputs s h hup t ht

theorem verify_mismatch_fails_its_pass {C : Type} (w : Coord.World) (R : Coord.Sem C) (E : Coord.File → C)
    (hV : Coord.VerifyWorld w R E) (f : Coord.File) (hm : E f ≠ R.render f E) : w.result (.pp f false) = .err :=
  Coord.verify_mismatch_is_err w R E hV f hm

example : verifyStream [1, 2, 3] [[1], [2, 3]] = true := by decide
example : verifyStream [1, 2, 3] [[1], [2]] = false := by decide
example : verifyStream [1, 2] [[1], [2, 3]] = false := by decide

/-- what a pass computes is the same function in verify and in build mode; only the sink differs -/
theorem verify_computes_what_build_computes {W : Type} (Wd : World W) (le : List Char) (first trailing : Bool) (w : W)
    (lines : List (List Char)) (readOk : Bool) :
    ppPass Wd .verify le first trailing w lines readOk = ppPass Wd .build le first trailing w lines readOk :=
  ppPass_verify Wd le first trailing w lines readOk

/-- **Verify passes exactly when the output is up to date (one source, concrete preprocessor).**
A verify pass over `src` ends `ok` if and only if a build pass over the same tree, with the same
options, ends `ok` and leaves at the output path exactly the bytes that are already there - so any
difference (one byte, a truncation, an extension, a missing file) fails it. Side conditions: the
output path is not a directory, is not also a temp target of the source, and the source does not read
its own output while it is rebuilt. -/
theorem verify_pass_ok_iff_output_up_to_date (cfg : Cfg) (hb : cfg.mode = .build) (a : FS) (src : Path) (first : Bool)
    (content : ByteArray) (o : Path) (bs : List (Refine.Block Directive))
    (hfile : a.file? src = some content) (hout : outputPath src = some o) (hnd : a.isDir o = false)
    (hbs : srcBlocks .build (decodeLines (byteLines content.toList)).1 = some bs)
    (hsafe : Safe cfg a src.dropLast bs [o]) (hprobes : ProbesOK cfg a src.dropLast [o] bs)
    (hnot : ∀ d e, Refine.Block.dir d e ∈ bs → dirWrites cfg a src.dropLast d ≠ some o) :
    (runPass cfg.toVerify a src first).1 = .ok ↔
      ((runPass cfg a src first).1 = .ok ∧ (runPass cfg a src first).2.file? o = a.file? o) :=
  verify_pass_iff cfg hb a src first content o bs hfile hout hnd hbs hsafe hprobes hnot

/-- the side conditions are executable (`srcSafeB`): where the check answers `true`, verify passes
exactly when the output is up to date -/
theorem verify_pass_ok_iff_output_up_to_date_where_checked (cfg : Cfg) (hb : cfg.mode = .build) (a : FS) (src : Path) (first : Bool)
    (hs : srcSafeB cfg a src = some true) :
    ∃ o, outputPath src = some o ∧
      ((runPass cfg.toVerify a src first).1 = .ok ↔
        ((runPass cfg a src first).1 = .ok ∧ (runPass cfg a src first).2.file? o = a.file? o)) :=
  verify_iff_where_checked cfg hb a src first hs

/-- entry layer: `txtpp verify …` runs in verify mode with the flags written behind `verify`; what
stands in front of the sub-command (`-N`, `-n`, …) has no effect -/
theorem cli_verify_maps_to_verify_mode (p : CliParsed) (f : CliFlags) (b : CliBuildFlags) (h : p.sub = some (.verify f b)) :
    p.config.mode = .verify ∧ p.config.recursive = f.recursive ∧ p.config.inputs = f.inputs ∧
    p.config.trailingNewline = !b.noTrailingNewline ∧ p.config.shellCmd = b.shell ∧
    ∀ fl bl n, ({ p with flags := fl, build := bl, needed := n } : CliParsed).config = p.config :=
  ⟨(verify_mode p f b h).1, (verify_mode p f b h).2.1, (verify_mode p f b h).2.2.1, (verify_mode p f b h).2.2.2.1,
   (verify_mode p f b h).2.2.2.2, fun fl bl n => sub_ignores_top_level p _ h fl bl n⟩

/-- **whole project, concrete model of `Txtpp::run` (soundness of verify).** If the verify run of a tree
succeeds then the only-if-needed run of the same tree succeeds too and leaves the same bytes at every
path: it found every output already equal to what it computed. The verify run and the only-if-needed
run are in lockstep from identical trees, so no condition on what the sources read is needed; the
executable side condition `trVerify` only asks that no output path is a directory. -/
theorem verify_ok_means_nothing_to_rebuild (cfg : Cfg) (fs : FS) (inputs : List Str) (Sfin : List Path)
    (hst : projStale cfg.toNeeded trVerify fs inputs [] = some Sfin)
    (hok : (runProject cfg.toVerify fs inputs).1 = .ok) :
    (runProject cfg.toNeeded fs inputs).1 = .ok ∧
    ∀ q, (runProject cfg.toNeeded fs inputs).2.file? q = (runProject cfg.toVerify fs inputs).2.file? q :=
  verify_project_ok_means_needed_finds_all_equal cfg fs inputs Sfin hst hok

/-- … and (with the whole-project theorem of C09) a normal build of that tree succeeds and leaves exactly
the bytes of the verified tree: every output was byte-identical to what a build produces -/
theorem verify_ok_means_build_reproduces_the_tree (cfg : Cfg) (hb : cfg.mode = .build) (fs : FS) (inputs : List Str) (Sv : List Path)
    (hstV : projStale cfg.toNeeded trVerify fs inputs [] = some Sv)
    (hstN : projStale cfg (trNeeded cfg) fs inputs [] = some [])
    (hok : (runProject cfg.toVerify fs inputs).1 = .ok) :
    (runProject cfg fs inputs).1 = .ok ∧
    ∀ q, (runProject cfg fs inputs).2.file? q = (runProject cfg.toVerify fs inputs).2.file? q :=
  verify_project_ok_means_build_reproduces cfg hb fs inputs Sv hstV hstN hok

/-- the pass-level step of that lockstep: from trees holding the same files, the verify pass fails or
both passes have the same outcome and leave the same files -/
theorem verify_pass_fails_or_matches_needed_pass (cfg : Cfg) (a b : FS) (src : Path) (first : Bool) (hag : Agree [] a b)
    (hnd : ∀ o, outputPath src = some o → a.isDir o = false) :
    (runPass cfg.toVerify b src first).1 = .err ∨
    ((runPass cfg.toNeeded a src first).1 = (runPass cfg.toVerify b src first).1 ∧
     Agree [] (runPass cfg.toNeeded a src first).2 (runPass cfg.toVerify b src first).2) :=
  needed_vs_verify_pass cfg a b src first hag hnd

end C06

import Txtpp.Lemmas.SinkFacts
import Txtpp.Lemmas.VerifyProject
/-!
# Property C06 — verify passes exactly when outputs are up to date, and is read-only
-/
namespace C06
open Txt

/-- the streaming comparison of `CtxOut::Verify` (remaining-length counter, chunk by chunk,
`rem = 0` at the end) succeeds exactly when the existing content is the concatenation of the
chunks: a changed, missing, extra byte anywhere, a truncation or an extension makes it fail -/
theorem stream_compare_iff {α : Type} [DecidableEq α] (existing : List α) (chunks : List (List α)) :
    verifyStream existing chunks = true ↔ existing = chunks.flatten := verifyStream_iff existing chunks

/-- a verify pass whose directives all succeed reports `ok` iff the output file holds exactly the
bytes a build would write now; and `done` never changes the file system -/
theorem verify_ok_iff_uptodate (fs2 : FS) (o : Path) (new : ByteArray) :
    (sinkEnd .verify fs2 o new).2 = fs2 ∧ ((sinkEnd .verify fs2 o new).1 = .ok ↔ fs2.file? o = some new) :=
  sinkEnd_verify fs2 o new

/-- a missing output fails, and opening an output for verification does not change anything -/
theorem verify_open_readonly (fs fs1 : FS) (o : Path) (h : sinkStart .verify fs o = some fs1) :
    fs1 = fs ∧ fs.pathExists o = true := sinkStart_verify fs fs1 o h

theorem verify_missing_fails (fs : FS) (o : Path) (h : fs.pathExists o = false) : sinkStart .verify fs o = none := by
  simp [sinkStart, h]

/-- verify is read-only: the only file-system operations of a verify pass are those of the
source's own temp directives and commands; whatever they preserve, the pass preserves —
in particular every untouched path keeps its bytes -/
theorem verify_untouched (cfg : Cfg) (fs : FS) (src : Path) (first : Bool) :
    Untouched fs (runPass cfg fs src first).2 := runPass_untouched cfg fs src first

theorem verify_pass_preserves (cfg : Cfg) (hm : cfg.mode = .verify) (src : Path) (I : FS → Prop)
    (hp : OpsPreserve (fileWorld cfg src.dropLast (joinPath src)) .verify I) (le : List Char) (first : Bool)
    (fs1 : FS) (lines : List (List Char)) (readOk : Bool) (hI : I fs1) :
    PassPost I (ppPass (fileWorld cfg src.dropLast (joinPath src)) cfg.mode le first cfg.trailing fs1 lines readOk) :=
  ppPass_fs_inv cfg src.dropLast (joinPath src) I (by rw [hm]; exact hp) le first fs1 lines readOk hI

/-- Project level (abstract in what a pass computes, for every dependency graph and schedule): in a
verify run over existing outputs `E` — the pass of a file fails exactly when its existing output
differs from the fresh output computed from the existing outputs of its dependencies — success
implies that every file in the dependency closure of the inputs was verified and holds exactly
the value a build would write now (`seqVal` = processing the files one at a time) … -/
theorem verify_success_means_uptodate {C : Type} (w : Coord.World) (R : Coord.Sem C) (hR : Coord.RenderLocal w R)
    (E : Coord.File → C) (hV : Coord.VerifyWorld w R E) (inputs : List Coord.File)
    (out0 : Coord.File → Coord.OutState C) (x : Coord.WSt C) (h : Coord.WReach w R inputs out0 x)
    (hq : x.st.pool = []) (hno : ¬ Coord.Leftover x.st) :
    (∀ f, (∃ i ∈ inputs, Coord.Path w.deps i f) → f ∈ x.st.dm.fin) ∧
    ∀ f ∈ x.st.dm.fin, E f = Coord.seqVal R x.st.dm.fin f :=
  Coord.verify_success_uptodate w R hR E hV inputs out0 x h hq hno

/-- … and conversely, when every output in the closure is up to date no task of the run reports an
error, while any mismatch that is reached is an error -/
theorem verify_uptodate_means_no_error {C : Type} (w : Coord.World) (R : Coord.Sem C) (E : Coord.File → C)
    (hV : Coord.VerifyWorld w R E) (inputs : List Coord.File) (s : Coord.St) (h : Coord.Reach w inputs s)
    (hup : ∀ f, (∃ i ∈ inputs, Coord.Path w.deps i f) → E f = R.render f E) (t : Coord.Task) (ht : t ∈ s.pool) :
    w.result t ≠ .err := Coord.verify_uptodate_never_errs w R E hV inputs s h hup t ht

theorem verify_mismatch_fails_its_pass {C : Type} (w : Coord.World) (R : Coord.Sem C) (E : Coord.File → C)
    (hV : Coord.VerifyWorld w R E) (f : Coord.File) (hm : E f ≠ R.render f E) : w.result (.pp f false) = .err :=
  Coord.verify_mismatch_is_err w R E hV f hm

example : verifyStream [1, 2, 3] [[1], [2, 3]] = true := by decide
example : verifyStream [1, 2, 3] [[1], [2]] = false := by decide
example : verifyStream [1, 2] [[1], [2, 3]] = false := by decide

end C06

import Txtpp.Lemmas.SinkFacts
/-!
# Property C06 — verify passes exactly when outputs are up to date, and is read-only
-/
namespace C06
open Txt

/-- the streaming comparison of `CtxOut::Verify` (remaining-length counter, chunk by chunk,
`rem = 0` at the end) succeeds exactly when the existing content is the concatenation of the
chunks: a changed, missing, extra byte anywhere, a truncation or an extension makes it fail -/
theorem stream_compare_iff {α : Type} [DecidableEq α] (existing : List α) (chunks : List (List α)) :
    verifyStream existing chunks = true ↔ existing = chunks.flatten := verifyStream_iff existing chunks

/-- a verify pass whose directives all succeed reports `ok` iff the output file holds exactly the
bytes a build would write now; and `done` never changes the file system -/
theorem verify_ok_iff_uptodate (fs2 : FS) (o : Path) (new : ByteArray) :
    (sinkEnd .verify fs2 o new).2 = fs2 ∧ ((sinkEnd .verify fs2 o new).1 = .ok ↔ fs2.file? o = some new) :=
  sinkEnd_verify fs2 o new

/-- a missing output fails, and opening an output for verification does not change anything -/
theorem verify_open_readonly (fs fs1 : FS) (o : Path) (h : sinkStart .verify fs o = some fs1) :
    fs1 = fs ∧ fs.pathExists o = true := sinkStart_verify fs fs1 o h

theorem verify_missing_fails (fs : FS) (o : Path) (h : fs.pathExists o = false) : sinkStart .verify fs o = none := by
  simp [sinkStart, h]

/-- verify is read-only: the only file-system operations of a verify pass are those of the
source's own temp directives and commands; whatever they preserve, the pass preserves —
in particular every untouched path keeps its bytes -/
theorem verify_untouched (cfg : Cfg) (fs : FS) (src : Path) (first : Bool) :
    Untouched fs (runPass cfg fs src first).2 := runPass_untouched cfg fs src first

theorem verify_pass_preserves (cfg : Cfg) (hm : cfg.mode = .verify) (src : Path) (I : FS → Prop)
    (hp : OpsPreserve (fileWorld cfg src.dropLast (joinPath src)) .verify I) (le : List Char) (first : Bool)
    (fs1 : FS) (lines : List (List Char)) (readOk : Bool) (hI : I fs1) :
    PassPost I (ppPass (fileWorld cfg src.dropLast (joinPath src)) cfg.mode le first cfg.trailing fs1 lines readOk) :=
  ppPass_fs_inv cfg src.dropLast (joinPath src) I (by rw [hm]; exact hp) le first fs1 lines readOk hI

example : verifyStream [1, 2, 3] [[1], [2, 3]] = true := by decide
example : verifyStream [1, 2, 3] [[1], [2]] = false := by decide
example : verifyStream [1, 2] [[1], [2, 3]] = false := by decide

end C06

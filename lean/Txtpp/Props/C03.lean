import Txtpp.Lemmas.ConcreteTrace
import Txtpp.Lemmas.ConcreteSched
import Txtpp.Lemmas.Term
import Txtpp.Lemmas.CoordScanInv
import Txtpp.Lemmas.SeenClosure
/-!
# Property C03 — every run terminates and completes each required file exactly once
-/
namespace C03
open Coord

/-- `done == total` (the exit test of the coordinator loop) holds exactly when nothing is in flight -/
theorem exit_iff_nothing_in_flight (w : World) (inputs : List File) (s : St) (h : Reach w inputs s) :
    s.done = s.total ↔ s.pool = [] := acct w inputs s h

/-- no deadlock: whenever a task is in flight, delivering it either ends the run with an error or
is a step of the model — the coordinator never gets stuck with work outstanding -/
theorem no_deadlock (w : World) (inputs : List File) (s : St) (h : Reach w inputs s) (t : Task) (ht : t ∈ s.pool) :
    handle { s with pool := s.pool.erase t } (w.result t) = .fail ∨ ∃ s', Step w s s' := by
  rcases deliver_cases w s t (reach_inv w inputs s h) ht with hf | ⟨s', hc, _⟩
  · exact Or.inl hf
  · exact Or.inr ⟨s', Step.deliver s s' t ht hc⟩

/-- every delivery is paid for by a file becoming seen or finished: after `n` deliveries
`n + (first passes in flight) ≤ |seen| + |finished|` -/
theorem delivery_budget (w : World) (inputs : List File) (n : Nat) (s : St) (h : ReachN w inputs n s) :
    n + nFirst s.pool ≤ s.seen.length + s.dm.fin.length := Coord.delivery_budget w inputs n s h

/-- termination: with at most `|U|` files ever seen, no execution has more than `2·|U|` deliveries,
under every schedule -/
theorem terminates (w : World) (inputs U : List File) (n : Nat) (s : St) (h : ReachN w inputs n s)
    (hseen : s.seen.length ≤ U.length) : n ≤ 2 * U.length := Coord.terminates w inputs U n s h hseen

/-- termination, closed form: over any finite universe `U` that contains the inputs and is closed
under dependencies, no execution — cyclic or not, any schedule, any thread count — has more than
`2·|U|` deliveries -/
theorem terminates_over_closed_universe (w : World) (inputs U : List File) (hin : ∀ i ∈ inputs, i ∈ U)
    (hcl : ∀ f ∈ U, ∀ d ∈ w.deps f, d ∈ U) (n : Nat) (s : St) (h : ReachN w inputs n s) : n ≤ 2 * U.length :=
  terminates_closed w inputs U hin hcl n s h

/-- only required files are ever processed: every file the coordinator sees is reachable from an
input along dependency edges -/
theorem only_required_files_processed (w : World) (inputs : List File) (s : St) (h : Reach w inputs s) :
    ∀ f ∈ s.seen, ∃ i ∈ inputs, Path w.deps i f := seen_reachable w inputs s h

/-- success means completion: at an exit without leftover (circular) edges every seen file —
every input and everything transitively included — is finished -/
theorem success_complete (w : World) (inputs : List File) (s : St) (h : Reach w inputs s) (hq : s.pool = [])
    (hno : ¬ Leftover s) : ∀ f ∈ s.seen, f ∈ s.dm.fin := by
  intro f hf
  rcases quiescent_cover w inputs s h hq f hf with ⟨d, hd⟩ | h'
  · exact absurd ⟨d, f, hd⟩ hno
  · exact h'

/-- exactly once: the finished list has no duplicates, a finished file never gets a task again, and
no file ever has two tasks in flight — however often it is named, scanned or required -/
theorem exactly_once (w : World) (inputs : List File) (s : St) (h : Reach w inputs s) :
    s.dm.fin.Nodup ∧ s.seen.Nodup ∧ s.pool.Nodup ∧ (∀ a ∈ s.dm.fin, ∀ b, Task.pp a b ∉ s.pool) :=
  ⟨(reach_inv w inputs s h).finND, (reach_inv w inputs s h).seenND, (reach_inv w inputs s h).poolND,
   fun a ha b => finished_is_quiet w inputs s h a ha b⟩

/-- the `unwrap` in `notify_finish` cannot fail (a panicking coordinator would never return) -/
theorem coordinator_never_panics (w : World) (inputs : List File) (s : St) (h : Reach w inputs s) (t : Task)
    (ht : t ∈ s.pool) : handle { s with pool := s.pool.erase t } (w.result t) ≠ .panic :=
  never_panics w inputs s h t ht

/-! ### with directory scan tasks (`execute_directory`, the `ScanDir` branch, shared counters) -/

/-- the exit test on the shared done/total counters holds exactly when neither a file task nor a
directory scan is in flight — also when a directory is reached more than once (named twice, or
through a symbolic-link loop; finding F4) -/
theorem exit_iff_idle_with_scans (w : ScanWorld) (files : List File) (ds : List Dir) (x : SSt)
    (h : SReach w files ds x) : x.isDone = true ↔ (x.st.pool = [] ∧ x.scans = []) :=
  exit_iff_idle w files ds x h

/-- every directory is scheduled for scanning at most once, whatever the scans report (duplicates,
loops): scheduled directories and scans in flight are duplicate-free, so at most `|U|` scans ever
start over a universe `U` of directories -/
theorem directories_scanned_once (w : ScanWorld) (files : List File) (ds : List Dir) (x : SSt)
    (h : SReach w files ds x) (U : List Dir) (hU : ∀ d ∈ x.dirs, d ∈ U) :
    x.dirs.length ≤ U.length ∧ x.scans.length ≤ x.dirs.length ∧ x.dirs.Nodup ∧ x.scans.Nodup :=
  ⟨(scans_bounded w files ds x h U hU).1, (scans_bounded w files ds x h U hU).2,
   (sreach_inv w files ds x h).dirsND, (sreach_inv w files ds x h).scansND⟩

/-- files found by scanning enter the same coordinator: the file part of every reachable state
satisfies the full file invariant, so exactly-once, second-pass-after-dependencies etc. hold with
scanning too -/
theorem files_found_by_scanning_once (w : ScanWorld) (files : List File) (ds : List Dir) (x : SSt)
    (h : SReach w files ds x) :
    x.st.seen.Nodup ∧ x.st.pool.Nodup ∧ x.st.dm.fin.Nodup ∧
    (∀ a, Task.pp a false ∈ x.st.pool → ∀ d ∈ w.deps a, d ∈ x.st.dm.fin) :=
  ⟨(file_part_inv w files ds x h).seenND, (file_part_inv w files ds x h).poolND,
   (file_part_inv w files ds x h).finND, (file_part_inv w files ds x h).secondDeps⟩

/-! ### the concrete run (real passes over the model file system) -/

/-- results that depend on the file system at the moment of the pass (what the real preprocessor
delivers) do not leave the abstract model: every execution of the coordinator with free, well-typed
results is an execution for a static world that tabulates exactly the results delivered - each task is
delivered at most once. So every theorem above applies to the concrete run as well. -/
theorem free_results_are_some_world (inputs : List File) (s : St) (hist : List (Task × Res)) (h : FReach inputs s hist) :
    ∃ w : World, Reach w inputs s ∧ ∀ t r, (t, r) ∈ hist → w.result t = r :=
  freach_reach inputs s hist h

/-- the concrete whole run `Txtpp::run` (input resolution, scans, coordinator, real passes) never ends in
the coordinator's panic branch -/
theorem whole_run_never_panics (cfg : Txt.Cfg) (fs : Txt.FS) (inputs : List (List Char)) :
    (Txt.runProject cfg fs inputs).1 ≠ .panic := Txt.runProject_never_panics cfg fs inputs

/-- **success means completion, for the concrete run.** `runProjectT` is `Txtpp::run` over the model file
system together with its trace: the resolved input indices, the last state, and the deliveries (task, result)
that really happened. If the verdict is `ok`: nothing is in flight, every resolved input is known to the
coordinator, every file it ever heard of has a delivery `(pass, ok)` in the trace, every dependency list in
the trace lies within those files, and no task was delivered twice. -/
theorem concrete_success_means_completion (cfg : Txt.Cfg) (fs : Txt.FS) (inputs : List (List Char)) (idx : List File)
    (s : Txt.PSt) (hist : List (Task × Res)) (ht : Txt.runProjectT cfg fs inputs = some (idx, s, hist))
    (h : (Txt.runProject cfg fs inputs).1 = .ok) :
    s.st.pool = [] ∧ (∀ i ∈ idx, i ∈ s.st.seen) ∧
    (∀ f ∈ s.st.seen, ∃ b, (Task.pp f b, Res.ok f) ∈ hist) ∧
    (∀ f deps, (Task.pp f true, Res.hasDeps f deps) ∈ hist → ∀ d ∈ deps, d ∈ s.st.seen) ∧
    (hist.map Prod.fst).Nodup :=
  Txt.trace_ok_complete cfg fs inputs idx s hist ht h

/-- the trace is an execution of the coordinator (with the results the real passes gave) from the resolved
inputs, it ends in the file system `runProject` returns, and every run that resolves its inputs has one -/
theorem concrete_trace_is_a_coordinator_execution (cfg : Txt.Cfg) (fs : Txt.FS) (inputs : List (List Char)) (idx : List File)
    (s : Txt.PSt) (hist : List (Task × Res)) (ht : Txt.runProjectT cfg fs inputs = some (idx, s, hist)) :
    FReach idx s.st hist ∧ s.fs = (Txt.runProject cfg fs inputs).2 :=
  ⟨(Txt.runProjectT_freach cfg fs inputs idx s hist ht).1, (Txt.runProjectT_freach cfg fs inputs idx s hist ht).2.2.1⟩

/-- **budget of the concrete run**: at most two deliveries per file named, each task once; the fuel of the
reference model (`4·(files+4)`) runs out only if the run named at least twice as many distinct paths as
the tree had files -/
theorem concrete_run_budget (cfg : Txt.Cfg) (fs : Txt.FS) (inputs : List (List Char)) (idx : List File)
    (s : Txt.PSt) (hist : List (Task × Res)) (ht : Txt.runProjectT cfg fs inputs = some (idx, s, hist)) :
    hist.length ≤ 2 * s.names.length ∧ (hist.map Prod.fst).Nodup ∧
    ((Txt.runProject cfg fs inputs).1 = .outOfFuel → 2 * (fs.files.length + 4) ≤ s.names.length) :=
  Txt.trace_budget cfg fs inputs idx s hist ht

/-- **every delivery order, concrete passes.** `runProjectSched cfg choices` is `Txtpp::run` over the model file
system where `choices` decides, at every step, which task of the pool is run and delivered next (the reference run
is the order "always the oldest"). Whatever the order: the trace is an execution of the coordinator, the run never
reaches the panic branch, `ok` means every file the coordinator heard of completed a pass that ended `ok`,
`circular` is justified by a cycle among the dependency lists this run reported, and there are at most two
deliveries per file named, each task once. (That all orders leave the same *bytes* is C02 over the abstract worker
model; it is not proved for the concrete passes.) -/
theorem every_delivery_order_concrete (cfg : Txt.Cfg) (choices : List Nat) (fs : Txt.FS) (inputs : List (List Char))
    (v : Txt.Verdict) (idx : List File) (s : Txt.PSt) (hist : List (Task × Res))
    (ht : Txt.runProjectSched cfg choices fs inputs = some (v, idx, s, hist)) :
    FReach idx s.st hist ∧ v ≠ .panic ∧
    (v = .ok → s.st.pool = [] ∧ (∀ i ∈ idx, i ∈ s.st.seen) ∧
      (∀ f ∈ s.st.seen, ∃ b, (Task.pp f b, Res.ok f) ∈ hist) ∧
      (∀ f deps, (Task.pp f true, Res.hasDeps f deps) ∈ hist → ∀ d ∈ deps, d ∈ s.st.seen)) ∧
    (v = .circular → s.st.pool = [] ∧ ∃ w : World, (∀ t r, (t, r) ∈ hist → w.result t = r) ∧
      ∃ f, (∃ d, f ∈ s.st.dm.inE d) ∧ ReachesCycle w.deps f) ∧
    hist.length ≤ 2 * s.names.length ∧ (hist.map Prod.fst).Nodup :=
  Txt.every_delivery_order cfg choices fs inputs v idx s hist ht

end C03

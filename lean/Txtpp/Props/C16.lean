import Txtpp.Lemmas.MachineFacts
import Txtpp.Model.Pp
import Txtpp.Lemmas.WriteEscape
import Txtpp.Lemmas.PlainIdentity
/-!
# Property C16 — ordinary text passes through unchanged and write output is inert
-/
namespace C16
open Txt Refine

theorem inject_empty (le l : List Char) : TagState.empty.injectLE le l = (l, TagState.empty) := by
  simp [TagState.injectLE, TagState.inject, TagState.empty, matchesOf, sortM, injLoop]

/-- A source that contains no directive line is reproduced line for line: the lines joined by the
line ending of the source, with the final line ending set by the option — for every list of
lines, in the final (or only) pass of a build. -/
theorem no_directive_identity {W : Type} (Wd : World W) (le : List Char) (trailing : Bool) (w : W)
    (lines : List (List Char)) (h : ∀ l ∈ lines, detectFrom l = none) :
    ppPass Wd .build le false trailing w lines true =
      .ok (joinWith le lines ++ (if !lines.isEmpty && trailing then le else [])) w := by
  have h1 : ∀ l ∈ lines, (txtppSem Wd .build le).detect l = none := by
    intro l hl; simp [txtppSem, h l hl]
  have h2 : ∀ l ∈ lines, (txtppSem Wd .build le).text ⟨TagState.empty, .exec, w⟩ l = (⟨TagState.empty, .exec, w⟩, some l) := by
    intro l _; simp [txtppSem, PpMode.isExecute, inject_empty]
  unfold ppPass
  simp only [Bool.not_true, Bool.false_eq_true, if_false]
  rw [Refine.passthrough _ trailing _ lines h1 h2]
  simp [TagState.hasTags, TagState.empty, txtppSem]

/-- also in a first pass (no dependency directive can occur, so it is the only pass) -/
theorem no_directive_identity_first {W : Type} (Wd : World W) (le : List Char) (trailing : Bool) (w : W)
    (lines : List (List Char)) (h : ∀ l ∈ lines, detectFrom l = none) :
    ppPass Wd .build le true trailing w lines true =
      .ok (joinWith le lines ++ (if !lines.isEmpty && trailing then le else [])) w := by
  have h1 : ∀ l ∈ lines, (txtppSem Wd .build le).detect l = none := by
    intro l hl; simp [txtppSem, h l hl]
  have h2 : ∀ l ∈ lines, (txtppSem Wd .build le).text ⟨TagState.empty, .firstExec, w⟩ l = (⟨TagState.empty, .firstExec, w⟩, some l) := by
    intro l _; simp [txtppSem, PpMode.isExecute, inject_empty]
  unfold ppPass
  simp only [if_true, Bool.not_true, Bool.false_eq_true, if_false]
  rw [Refine.passthrough _ trailing _ lines h1 h2]
  simp [TagState.hasTags, TagState.empty, txtppSem]

/-- Directive output is never re-read: in the specification the chunk produced by a directive
block is exactly the formatted output of `exec`; it does not pass through `detect` or `text`
(tag substitution) again. -/
theorem directive_output_inert {D σ : Type} (S : Sem D σ) (s s' : σ) (d : D) (atEof : Bool) (c : List Char)
    (bs : List (Block D)) (h : S.exec s d = some (s', some c)) :
    eval S s (.dir d atEof :: bs) = (eval S s' bs).map (fun r => (r.1, ⟨c, atEof⟩ :: r.2)) := by
  simp [eval, h]

/-- Any sequence of lines (no leading blank on the first, no trailing blanks, no line terminators
inside) is reproduced exactly by escaping it with `write`: the source `-TXTPP#write L0`, `-L1`, …
yields the lines joined by the source's line ending, plus the final one iff the option is on —
whatever directive lines, look-alikes or tag names the text contains (it is never re-read as a
directive and never subject to tag substitution). -/
theorem write_escape_roundtrip {W : Type} (Wd : World W) (le : List Char) (trailing : Bool) (w : W)
    (L0 : List Char) (Ls : List (List Char))
    (h0 : trim L0 = L0) (hLs : ∀ l ∈ Ls, trimEnd l = l) (hclean : ∀ l ∈ L0 :: Ls, Clean l) :
    ppPass Wd .build le false trailing w (escapeLines L0 Ls) true =
      .ok (joinWith le (L0 :: Ls) ++ (if trailing then le else [])) w :=
  Txt.write_escape_roundtrip Wd le trailing w L0 Ls h0 hLs hclean

example : detectFrom ['T', 'X', 'T', 'P', 'P', '#', 'r', 'u', 'n', 'x'] = none := by decide
-- the hypotheses are satisfiable by a text that itself is a directive line
example : trim ['-', 'T', 'X', 'T', 'P', 'P', '#', 'r', 'u', 'n', ' ', 'x'] = ['-', 'T', 'X', 'T', 'P', 'P', '#', 'r', 'u', 'n', ' ', 'x'] := by decide

/-- **Byte for byte.** A source that consists of plain lines (no directive line; no CR / LF inside a
line), each terminated by the same line ending (LF or CRLF) - in UTF-8, any characters - is
reproduced exactly: after a build pass with the trailing newline on, the output file holds the very
bytes of the source. (Bytes in, bytes out: `BufRead::lines`, the UTF-8 decoding, the line loop, the
line-ending sniffing and the encoding of the output are all inside the statement.) -/
theorem plain_source_reproduced_byte_for_byte (cfg : Cfg) (hb : cfg.mode = .build) (ht : cfg.trailing = true) (fs : FS)
    (src o : Path) (first : Bool) (crlf : Bool) (lines : List (List Char)) (hne : lines ≠ [])
    (hclean : ∀ l ∈ lines, Clean l) (hplain : ∀ l ∈ lines, detectFrom l = none)
    (hfile : fs.file? src = some (ByteArray.mk (srcBytes crlf lines).toArray)) (hout : outputPath src = some o)
    (hdir : fs.isDir o = false) :
    (runPass cfg fs src first).1 = .ok ∧
    (runPass cfg fs src first).2.file? o = some (ByteArray.mk (srcBytes crlf lines).toArray) :=
  plain_source_identity cfg hb ht fs src o first crlf lines hne hclean hplain hfile hout hdir

/-- the byte-level reading of a source: lines each followed by the same ending come back as those lines -/
theorem source_bytes_read_back (crlf : Bool) (lines : List (List Char)) (hc : ∀ l ∈ lines, Clean l) :
    decodeLines (byteLines (srcBytes crlf lines)) = (lines, true) := by
  rw [byteLines_src crlf lines hc, decodeLines_src]

/-- UTF-8: a byte 10 / 13 in the encoding of a character is that character being LF / CR (multi-byte
sequences never contain them) -/
theorem utf8_newline_bytes_are_newlines (c : Char) (b : UInt8) (hb : b ∈ String.utf8EncodeChar c) :
    (b = 10 → c = '\n') ∧ (b = 13 → c = '\r') := encodeChar_nl c b hb

end C16

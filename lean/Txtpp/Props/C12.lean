import Txtpp.Lemmas.LineEnding
import Txtpp.Model.Fs
/-!
# Property C12 — generated files use one line ending: that of the source's first line
-/
namespace C12
open Txt

/-- the line ending is sniffed from the first line only: CRLF iff the first `\n` is preceded by `\r` -/
theorem sniff_first_line (first rest : List UInt8) (h : ∀ b ∈ first, b ≠ 10) :
    sniffLE (first ++ 10 :: rest) = (if first.getLast? = some 13 then ['\r', '\n'] else ['\n']) := by
  have ht : (first ++ 10 :: rest).takeWhile (· != 10) = first := by
    induction first with
    | nil => simp
    | cons a as ih =>
      have ha : a ≠ 10 := h a (by simp)
      simp [List.takeWhile_cons, ha]
      exact ih (fun b hb => h b (by simp [hb]))
  unfold sniffLE
  simp only [ht]
  simp

/-- a source without any newline gets the OS default (LF on this platform) -/
theorem sniff_no_newline (b : List UInt8) (h : ∀ x ∈ b, x ≠ 10) : sniffLE b = ['\n'] := by
  have ht : b.takeWhile (· != 10) = b := by
    induction b with
    | nil => rfl
    | cons a as ih =>
      have ha : a ≠ 10 := h a (by simp)
      simp [List.takeWhile_cons, ha]
      exact ih (fun x hx => h x (by simp [hx]))
  simp [sniffLE, ht]

/-- directive output (include content, command stdout, written lines) -/
theorem directive_output_one_ending (le ws raw : List Char) (hraw : crDom raw = true) (hws : Clean ws) :
    LEonly le (formatOutput le ws raw) := formatOutput_LEonly le ws raw hraw hws

/-- substituted tag content -/
theorem tag_content_one_ending (le raw : List Char) (hraw : crDom raw = true) :
    LEonly le (replaceLE le raw) := replaceLE_LEonly le raw hraw

/-- temp file content -/
theorem temp_content_one_ending (le : List Char) (body : List (List Char)) (h : ∀ l ∈ body, Clean l) :
    LEonly le (joinWith le body) := tempBody_LEonly le body h

/-- pieces produced by `str::lines` contain no line terminator when every CR is followed by LF -/
theorem lines_clean (s : List Char) (h : crDom s = true) : ∀ l ∈ rustLines s, Clean l := rustLines_clean s h

example : formatOutput ['\r', '\n'] [' '] ['a', '\n', 'b', '\r', '\n'] = [' ', 'a', '\r', '\n', ' ', 'b', '\r', '\n'] := by decide
example : crDom ['a', '\n', 'b', '\r', '\n'] = true := by decide

end C12

import Txtpp.Lemmas.LineEnding
import Txtpp.Model.Fs
import Txtpp.Lemmas.OutputConfTxtpp
import Txtpp.Lemmas.ByteLines
import Txtpp.Lemmas.ByteEndings
import Txtpp.Lemmas.CrFs
import Txtpp.Lemmas.CmdCrVocab
/-!
# Property C12 — generated files use one line ending: that of the source's first line
-/
namespace C12
open Txt

/-- the line ending is sniffed from the first line only: CRLF iff the first `\n` is preceded by `\r` -/
theorem sniff_first_line (first rest : List UInt8) (h : ∀ b ∈ first, b ≠ 10) :
    sniffLE (first ++ 10 :: rest) = (if first.getLast? = some 13 then ['\r', '\n'] else ['\n']) := by
  have ht : (first ++ 10 :: rest).takeWhile (· != 10) = first := by
    induction first with
    | nil => simp
    | cons a as ih =>
      have ha : a ≠ 10 := h a (by simp)
      simp [List.takeWhile_cons, ha]
      exact ih (fun b hb => h b (by simp [hb]))
  unfold sniffLE
  simp only [ht]
  simp

/-- a source without any newline gets the OS default (LF on this platform) -/
theorem sniff_no_newline (b : List UInt8) (h : ∀ x ∈ b, x ≠ 10) : sniffLE b = ['\n'] := by
  have ht : b.takeWhile (· != 10) = b := by
    induction b with
    | nil => rfl
    | cons a as ih =>
      have ha : a ≠ 10 := h a (by simp)
      simp [List.takeWhile_cons, ha]
      exact ih (fun x hx => h x (by simp [hx]))
  simp [sniffLE, ht]

/-- directive output (include content, command stdout, written lines) -/
theorem directive_output_one_ending (le ws raw : List Char) (hraw : crDom raw = true) (hws : Clean ws) :
    LEonly le (formatOutput le ws raw) := formatOutput_LEonly le ws raw hraw hws

/-- substituted tag content -/
theorem tag_content_one_ending (le raw : List Char) (hraw : crDom raw = true) :
    LEonly le (replaceLE le raw) := replaceLE_LEonly le raw hraw

/-- temp file content -/
theorem temp_content_one_ending (le : List Char) (body : List (List Char)) (h : ∀ l ∈ body, Clean l) :
    LEonly le (joinWith le body) := tempBody_LEonly le body h

/-- pieces produced by `str::lines` contain no line terminator when every CR is followed by LF -/
theorem lines_clean (s : List Char) (h : crDom s = true) : ∀ l ∈ rustLines s, Clean l := rustLines_clean s h

/-- The whole output: for every source whose lines are terminator-free (what `BufRead::lines`
delivers when CR occurs only before LF), every world in which included files and command output
have CR only before LF, every mode and both passes — a successful pass's output consists of
terminator-free pieces joined by the line ending sniffed from the source's first line, regardless
of the endings used by later source lines, included files, command output, written text or stored
tag content. -/
theorem output_one_ending {W : Type} (Wd : World W) (hW : WorldCr Wd) (mode : Mode) (le : List Char)
    (first trailing : Bool) (w : W) (lines : List (List Char)) (hlines : ∀ l ∈ lines, Clean l)
    (out : List Char) (w' : W) (h : ppPass Wd mode le first trailing w lines true = .ok out w') : LEonly le out :=
  output_conf Wd hW mode le first trailing w lines hlines out w' h

/-- the lines `BufRead::lines` hands to the preprocessor (split the bytes at 10, strip one trailing
13, decode as UTF-8) are free of `\r` and `\n` whenever every byte 13 of the source is followed by
byte 10 -/
theorem source_lines_terminator_free (bytes : List UInt8) (h : crB bytes = true) :
    ∀ l ∈ (decodeLines (byteLines bytes)).1, Clean l := source_lines_clean bytes h

/-- end to end for one source given as bytes: CR only before LF in the source, in included files and
in command output ⟹ every line terminator of the output is the ending sniffed from the first line -/
theorem output_one_ending_of_bytes {W : Type} (Wd : World W) (hW : WorldCr Wd) (mode : Mode) (first trailing : Bool)
    (w : W) (bytes : List UInt8) (hcr : crB bytes = true) (out : List Char) (w' : W)
    (h : ppPass Wd mode (sniffLE bytes) first trailing w (decodeLines (byteLines bytes)).1 true = .ok out w') :
    LEonly (sniffLE bytes) out :=
  output_conf Wd hW mode (sniffLE bytes) first trailing w _ (source_lines_clean bytes hcr) out w' h

/-- … and so does the content of every temp file (the argument lines after the first, joined) -/
theorem temp_file_one_ending (le : List Char) (d : Directive) (hd : DirClean d) :
    LEonly le (joinWith le d.args.tail) := temp_body_conf le d hd

/-- the arguments of every directive parsed from terminator-free lines are terminator-free -/
theorem directive_args_clean (l : List Char) (d : Directive) (hl : Clean l) (h : detectFrom l = some d) : DirClean d :=
  detect_dirClean l d hl h

example : formatOutput ['\r', '\n'] [' '] ['a', '\n', 'b', '\r', '\n'] = [' ', 'a', '\r', '\n', ' ', 'b', '\r', '\n'] := by decide
example : crDom ['a', '\n', 'b', '\r', '\n'] = true := by decide

/-- **On bytes.** The bytes written for a generated file (`lineBytes out` = the UTF-8 encoding of the
output text) use one line ending, that of the source's first line: if it is CRLF, the bytes 13 and 10
occur only as the pair 13 10; if it is LF, the byte 13 does not occur at all. (Source bytes with CR only
before LF; included files and command output likewise.) -/
theorem generated_bytes_one_ending {W : Type} (Wd : World W) (hW : WorldCr Wd) (mode : Mode) (first trailing : Bool)
    (w : W) (bytes : List UInt8) (hcr : crB bytes = true) (out : List Char) (w' : W)
    (h : ppPass Wd mode (sniffLE bytes) first trailing w (decodeLines (byteLines bytes)).1 true = .ok out w') :
    (sniffLE bytes = ['\r', '\n'] ∧ crlfOnly (lineBytes out) = true) ∨
    (sniffLE bytes = ['\n'] ∧ (13 : UInt8) ∉ lineBytes out) := by
  have hle := output_one_ending_of_bytes Wd hW mode first trailing w bytes hcr out w' h
  have hs : sniffLE bytes = ['\r', '\n'] ∨ sniffLE bytes = ['\n'] := by
    unfold sniffLE
    simp only
    split
    · exact Or.inl rfl
    · exact Or.inr rfl
  rcases hs with hs | hs
  · left; rw [hs] at hle; exact ⟨hs, bytes_crlf_only out hle⟩
  · right; rw [hs] at hle; exact ⟨hs, bytes_lf_only out hle⟩

/-- **Whole run, file-system model.** If in every file of the tree a CR occurs only before LF (bytes) and
commands print such text, then after a run - any mode, any inputs, any verdict - the same is true of every
file of the tree, generated files included: no stray CR is ever produced. -/
theorem run_keeps_tree_cr_clean (cfg : Cfg) (hcmd : CmdCr cfg) (fs : FS) (inputs : List (List Char)) (h : CrFS fs) :
    CrFS (runProject cfg fs inputs).2 := runProject_crfs cfg hcmd fs inputs h

/-- **One build pass, on the bytes of the output file.** Over such a tree, after a build pass that ends
`ok`, the output file holds the encoding of a text whose line terminators are all the ending of the
source's first line: for a CRLF source the bytes 13 and 10 occur only as the pair, for an LF source the
byte 13 does not occur. (Included files are read from the file system here, not assumed.) -/
theorem build_pass_output_bytes_one_ending (cfg : Cfg) (hb : cfg.mode = .build) (hcmd : CmdCr cfg) (fs : FS) (src o : Path)
    (first : Bool) (content : ByteArray) (h : CrFS fs) (hfile : fs.file? src = some content) (hout : outputPath src = some o)
    (hok : (runPass cfg fs src first).1 = .ok) :
    ∃ out, (runPass cfg fs src first).2.file? o = some (encodeUtf8 out) ∧
      ((sniffLE content.toList = ['\r', '\n'] ∧ crlfOnly (lineBytes out) = true) ∨
       (sniffLE content.toList = ['\n'] ∧ (13 : UInt8) ∉ lineBytes out)) :=
  runPass_output_bytes cfg hb hcmd fs src o first content h hfile hout hok

/-- bytes and text agree on "CR only before LF" (both directions, through the UTF-8 codec) -/
theorem cr_clean_bytes_iff_text (s : List Char) : crB s.utf8Encode.data.toList = true ↔ crDom s = true :=
  ⟨crDom_of_bytes s, bytes_of_crDom s⟩

/-- the hypothesis on commands is satisfiable by a purely static condition: a vocabulary whose commands
print CR-clean literals and contents of files of the tree (no path-dependent output) prints CR-clean text
over a CR-clean tree - so the whole-run theorem needs nothing but facts about the initial tree and the
command table -/
theorem vocabulary_commands_are_cr_clean (cfg : Cfg) (hv : VocabCr cfg) : CmdCr cfg := cmdCr_of_vocab cfg hv

theorem run_keeps_tree_cr_clean_static (cfg : Cfg) (hv : VocabCr cfg) (fs : FS) (inputs : List (List Char)) (h : CrFS fs) :
    CrFS (runProject cfg fs inputs).2 := runProject_crfs cfg (cmdCr_of_vocab cfg hv) fs inputs h

end C12

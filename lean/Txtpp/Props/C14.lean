import Txtpp.Lemmas.TagInject
/-!
# Property C14 — tags: stored once, substituted once, leftmost-first, never re-expanded

`Txt.TagState` with `create` / `tryStore` / `injectLE` is the executable model of
`core/util/tag_state.rs` (tied to the code by correspondence M3, in process, bounded-exhaustive,
every case repeated with fresh hash seeds). The `HashMap` is modelled by an association list in
*arbitrary* order; `inject_order_irrelevant` is the theorem that the order does not matter.
-/
namespace C14
open Txt

/-- Creating a tag fails exactly when another tag is still waiting for its content, or the new
name equals, prefixes or is prefixed by the name of a stored tag. -/
theorem create_fails_iff (t : TagState) (tag : Str) :
    t.create tag = none ↔ (t.listening.isSome ∨ ∃ kv ∈ t.stored, kv.1 <+: tag ∨ tag <+: kv.1) :=
  create_err_iff t tag

/-- a successful create only sets the waiting tag -/
theorem create_ok (t t' : TagState) (tag : Str) (h : t.create tag = some t') :
    t' = { t with listening := some tag } := by
  unfold TagState.create at h
  split at h
  · simp at h
  · split at h
    · simp at h
    · simpa using h.symm

/-- content is captured only by a waiting tag, which then stops waiting ("stored once") -/
theorem store_iff (t : TagState) (c : Str) :
    (t.tryStore c).isSome ↔ t.listening.isSome := by
  unfold TagState.tryStore; cases t.listening <;> simp

theorem store_ok (t t' : TagState) (c : Str) (h : t.tryStore c = some t') :
    t'.listening = none ∧ ∃ tag, t.listening = some tag ∧ (tag, c) ∈ t'.stored := by
  unfold TagState.tryStore at h
  split at h
  · rename_i tag htag; simp at h; subst h; exact ⟨rfl, tag, htag, by simp⟩
  · simp at h

/-- operations of the tag store as the preprocessor issues them -/
inductive Op where
  | create (name : Str) | store (content : Str) | inject (le line : Str)

def step (t : TagState) : Op → TagState
  | .create n => (t.create n).getD t
  | .store c => (t.tryStore c).getD t
  | .inject le l => (t.injectLE le l).2

theorem inject_inv (t : TagState) (norm : Str → Str) (line : Str) (h : TagInv t) : TagInv (t.inject norm line).2 := by
  obtain ⟨h1, h2⟩ := h
  refine ⟨h1.sublist List.filter_sublist, ?_⟩
  intro tag htag kv hkv
  exact h2 tag htag kv (List.mem_filter.1 hkv).1

/-- In every reachable state of the tag store the stored names are pairwise unrelated by prefix
(in particular distinct) and unrelated to the waiting name — so no two stored names can have
their first occurrence at the same position of a line. -/
theorem reachable_prefixFree (ops : List Op) : TagInv (ops.foldl step TagState.empty) := by
  suffices ∀ t, TagInv t → TagInv (ops.foldl step t) from
    this _ ⟨List.Pairwise.nil, by intro tag h; simp [TagState.empty] at h⟩
  induction ops with
  | nil => intro t h; exact h
  | cons op ops ih =>
    intro t h
    apply ih
    cases op with
    | create n =>
      simp only [step]
      cases hc : t.create n with
      | none => exact h
      | some t' => exact create_inv t t' n h hc
    | store c =>
      simp only [step]
      cases hc : t.tryStore c with
      | none => exact h
      | some t' => exact tryStore_inv t t' c h hc
    | inject le l => exact inject_inv t _ l h

/-- "The result is identical on every run": under the reachable invariant the substituted line
and the set of remaining tags do not depend on the iteration order of the map. -/
theorem inject_order_irrelevant (l : Option Str) (s1 s2 : List (Str × Str)) (le line : Str)
    (hp : s1.Perm s2) (hpf : PrefixFree s1) :
    ((TagState.mk l s1).injectLE le line).1 = ((TagState.mk l s2).injectLE le line).1 ∧
    ((TagState.mk l s1).injectLE le line).2.stored.Perm ((TagState.mk l s2).injectLE le line).2.stored :=
  inject_perm l s1 s2 (replaceLE le) line hp hpf

/-- substitution never adds tags and never touches the waiting tag -/
theorem inject_only_removes (t : TagState) (le line : Str) :
    (t.injectLE le line).2.listening = t.listening ∧ (t.injectLE le line).2.stored.Sublist t.stored :=
  ⟨rfl, List.filter_sublist⟩

/-! Non-vacuity / worked examples (kernel evaluation) -/
example : ((TagState.mk none [(['a'], ['X']), (['b'], ['p', '\n', 'q'])]).injectLE ['\r', '\n'] ['a', 'a', 'b', '-']).1
    = ['X', 'a', 'p', '\r', '\n', 'q', '-'] := by decide
example : ((TagState.mk none [(['a', 'b'], ['a'])]).injectLE ['\n'] ['a', 'b', 'a', 'b']).1 = ['a', 'a', 'b'] := by decide
example : (TagState.mk none [(['a', 'b'], ['X'])]).create ['a'] = none := by decide
example : PrefixFree [(['a'], ['X']), (['b'], ['Y'])] := by simp [PrefixFree, related, List.isPrefixOf]

end C14

import Txtpp.Lemmas.TagInject
import Txtpp.Lemmas.InjectSpec
import Txtpp.Model.Pp
/-!
# Property C14 — tags: stored once, substituted once, leftmost-first, never re-expanded

`Txt.TagState` with `create` / `tryStore` / `injectLE` is the executable model of
`core/util/tag_state.rs` (tied to the code by correspondence M3, in process, bounded-exhaustive,
every case repeated with fresh hash seeds). The `HashMap` is modelled by an association list in
*arbitrary* order; `inject_order_irrelevant` is the theorem that the order does not matter.
-/
namespace C14
open Txt

/-- Creating a tag fails exactly when another tag is still waiting for its content, or the new
name equals, prefixes or is prefixed by the name of a stored tag. -/
theorem create_fails_iff (t : TagState) (tag : Str) :
    t.create tag = none ↔ (t.listening.isSome ∨ ∃ kv ∈ t.stored, kv.1 <+: tag ∨ tag <+: kv.1) :=
  create_err_iff t tag

/-- a successful create only sets the waiting tag -/
theorem create_ok (t t' : TagState) (tag : Str) (h : t.create tag = some t') :
    t' = { t with listening := some tag } := by
  unfold TagState.create at h
  split at h
  · simp at h
  · split at h
    · simp at h
    · simpa using h.symm

/-- content is captured only by a waiting tag, which then stops waiting ("stored once") -/
theorem store_iff (t : TagState) (c : Str) :
    (t.tryStore c).isSome ↔ t.listening.isSome := by
  unfold TagState.tryStore; cases t.listening <;> simp

theorem store_ok (t t' : TagState) (c : Str) (h : t.tryStore c = some t') :
    t'.listening = none ∧ ∃ tag, t.listening = some tag ∧ (tag, c) ∈ t'.stored := by
  unfold TagState.tryStore at h
  split at h
  · rename_i tag htag; simp at h; subst h; exact ⟨rfl, tag, htag, by simp⟩
  · simp at h

/-- operations of the tag store as the preprocessor issues them -/
inductive Op where
  | create (name : Str) | store (content : Str) | inject (le line : Str)

def step (t : TagState) : Op → TagState
  | .create n => (t.create n).getD t
  | .store c => (t.tryStore c).getD t
  | .inject le l => (t.injectLE le l).2

theorem inject_inv (t : TagState) (norm : Str → Str) (line : Str) (h : TagInv t) : TagInv (t.inject norm line).2 := by
  obtain ⟨h1, h2⟩ := h
  refine ⟨h1.sublist List.filter_sublist, ?_⟩
  intro tag htag kv hkv
  exact h2 tag htag kv (List.mem_filter.1 hkv).1

/-- In every reachable state of the tag store the stored names are pairwise unrelated by prefix
(in particular distinct) and unrelated to the waiting name — so no two stored names can have
their first occurrence at the same position of a line. -/
theorem reachable_prefixFree (ops : List Op) : TagInv (ops.foldl step TagState.empty) := by
  suffices ∀ t, TagInv t → TagInv (ops.foldl step t) from
    this _ ⟨List.Pairwise.nil, by intro tag h; simp [TagState.empty] at h⟩
  induction ops with
  | nil => intro t h; exact h
  | cons op ops ih =>
    intro t h
    apply ih
    cases op with
    | create n =>
      simp only [step]
      cases hc : t.create n with
      | none => exact h
      | some t' => exact create_inv t t' n h hc
    | store c =>
      simp only [step]
      cases hc : t.tryStore c with
      | none => exact h
      | some t' => exact tryStore_inv t t' c h hc
    | inject le l => exact inject_inv t _ l h

/-- "The result is identical on every run": under the reachable invariant the substituted line
and the set of remaining tags do not depend on the iteration order of the map. -/
theorem inject_order_irrelevant (l : Option Str) (s1 s2 : List (Str × Str)) (le line : Str)
    (hp : s1.Perm s2) (hpf : PrefixFree s1) :
    ((TagState.mk l s1).injectLE le line).1 = ((TagState.mk l s2).injectLE le line).1 ∧
    ((TagState.mk l s1).injectLE le line).2.stored.Perm ((TagState.mk l s2).injectLE le line).2.stored :=
  inject_perm l s1 s2 (replaceLE le) line hp hpf

/-- substitution never adds tags and never touches the waiting tag -/
theorem inject_only_removes (t : TagState) (le line : Str) :
    (t.injectLE le line).2.listening = t.listening ∧ (t.injectLE le line).2.stored.Sublist t.stored :=
  ⟨rfl, List.filter_sublist⟩

/-- `inject_tags`, declaratively. With `ms` the matches (first occurrence of every stored name that
occurs in the line) sorted by position and `sel` the greedy left-to-right selection:
the result is the line with exactly the selected occurrences replaced by their line-ending-
normalised values (no indentation added, values not scanned again); exactly the selected names
are deleted; every selected occurrence is the *first* occurrence of a stored name; selected
occurrences are increasing and do not overlap; and every occurrence that is not selected starts
inside an earlier selected one (it is overlapped by an earlier substitution and left alone). -/
theorem inject_spec (t : TagState) (le line : Str) :
    let ms := sortM (matchesOf t.stored line)
    let sel := select ms 0
    (t.injectLE le line).1 = substOut (replaceLE le) line sel 0 ∧
    (t.injectLE le line).2.stored = t.stored.filter (fun kv => !(sel.map (·.2.1)).contains kv.1) ∧
    (t.injectLE le line).2.listening = t.listening ∧
    (∀ m ∈ sel, (m.2.1, m.2.2) ∈ t.stored ∧ m.2.1 <+: line.drop m.1 ∧ ∀ j, j < m.1 → ¬ m.2.1 <+: line.drop j) ∧
    sel.Pairwise (fun a b => a.1 + a.2.1.length ≤ b.1) ∧
    (∀ m ∈ ms, m ∉ sel → ∃ s ∈ sel, s.1 ≤ m.1 ∧ m.1 < s.1 + s.2.1.length) :=
  Txt.inject_spec t (replaceLE le) line

/-- a waiting tag captures the output of the next output-producing directive: the raw output goes
to the tag and nothing is written -/
theorem capture_next_output {W : Type} (le : Str) (s : PpState W) (ws raw tag : Str) (h : s.tags.listening = some tag) :
    (routeOutput le s ws raw).2 = none ∧ (routeOutput le s ws raw).1.tags.listening = none ∧
    (tag, raw) ∈ (routeOutput le s ws raw).1.tags.stored := by
  simp [routeOutput, TagState.tryStore, h]

/-- with no tag waiting the output is written (formatted), the tag store is unchanged -/
theorem no_capture_without_tag {W : Type} (le : Str) (s : PpState W) (ws raw : Str) (h : s.tags.listening = none) :
    routeOutput le s ws raw = (s, some (formatOutput le ws raw)) := by
  simp [routeOutput, TagState.tryStore, h]

/-- reaching the end of the file with a tag waiting or stored is an error (outside clean mode) -/
theorem eof_unused_is_error {W : Type} (Wd : World W) (mode : Mode) (hm : mode ≠ .clean) (le : Str) (first trailing : Bool)
    (w : W) (lines : List Str) (out : Str) (w' : W)
    (h : ppPass Wd mode le first trailing w lines true = .ok out w') :
    ∃ s, Refine.machine (txtppSem Wd mode le) trailing ⟨TagState.empty, if first then .firstExec else .exec, w⟩ lines = some (s, out) ∧
      s.tags.hasTags = false := by
  unfold ppPass at h
  simp only [Bool.not_true, Bool.false_eq_true, if_false] at h
  cases hmach : Refine.machine (txtppSem Wd mode le) trailing ⟨TagState.empty, if first then .firstExec else .exec, w⟩ lines with
  | none => simp [hmach] at h
  | some r =>
    obtain ⟨s, o⟩ := r
    simp only [hmach] at h
    have hne : (mode != Mode.clean) = true := by simpa using hm
    cases hp : s.pm <;> simp only [hp] at h
    · cases ht : s.tags.hasTags <;> simp [ht, hne] at h
      exact ⟨s, by rw [h.1], ht⟩
    · cases ht : s.tags.hasTags <;> simp [ht, hne] at h
      exact ⟨s, by rw [h.1], ht⟩
    · simp at h

/-! Non-vacuity / worked examples (kernel evaluation) -/
example : ((TagState.mk none [(['a'], ['X']), (['b'], ['p', '\n', 'q'])]).injectLE ['\r', '\n'] ['a', 'a', 'b', '-']).1
    = ['X', 'a', 'p', '\r', '\n', 'q', '-'] := by decide
example : ((TagState.mk none [(['a', 'b'], ['a'])]).injectLE ['\n'] ['a', 'b', 'a', 'b']).1 = ['a', 'a', 'b'] := by decide
example : (TagState.mk none [(['a', 'b'], ['X'])]).create ['a'] = none := by decide
example : PrefixFree [(['a'], ['X']), (['b'], ['Y'])] := by simp [PrefixFree, related, List.isPrefixOf]

/-- **the tag name is the whole first argument of the directive** (the trimmed rest of the line: inner blanks,
comment closers and all - C15 says what that argument is): an executed `tag` directive succeeds exactly when
`create` accepts that argument, produces no output, and then waits under exactly that name -/
theorem tag_name_is_the_whole_argument {W : Type} (Wd : World W) (mode : Mode) (le : Str) (s : PpState W) (d : Directive)
    (hm : mode ≠ .clean) (hty : d.ty = .tag) (hpm : s.pm = .exec) :
    (execDirective Wd mode le s d = none ↔ s.tags.create (d.args.headD []) = none) ∧
    (∀ s' o, execDirective Wd mode le s d = some (s', o) →
      o = none ∧ s'.tags = { s.tags with listening := some (d.args.headD []) } ∧ s'.w = s.w ∧ s'.pm = s.pm) := by
  have key : execDirective Wd mode le s d =
      (match s.tags.create (d.args.headD []) with
       | none => none
       | some t' => some ({ s with tags := t' }, none)) := by
    simp only [execDirective, hm, hty, hpm, PpMode.isExecute, if_false, if_true, Bool.not_true, Bool.false_eq_true]
    cases s.tags.create (d.args.headD []) <;> simp
  rw [key]
  cases hc : s.tags.create (d.args.headD []) with
  | none => simp
  | some t' =>
    refine ⟨by simp, ?_⟩
    intro s' o h
    simp only [Option.some.injEq, Prod.mk.injEq] at h
    obtain ⟨rfl, rfl⟩ := h
    exact ⟨rfl, create_ok _ _ _ hc, rfl, rfl⟩

end C14

import Txtpp.Lemmas.ConcreteTrace
import Txtpp.Lemmas.Term
import Txtpp.Lemmas.SeenClosure
/-!
# Property C05 — dependency cycles are reported, never hang, and spare the acyclic part
-/
namespace C05
open Coord

/-- at quiescence every file that is still waiting (= appears in `take_remaining`) can reach a
dependency cycle: a project without cycles never gets a circular-dependency failure -/
theorem leftover_reaches_cycle (w : World) (inputs : List File) (s : St) (h : Reach w inputs s) (hq : s.pool = [])
    (f : File) (hf : ∃ d, f ∈ s.dm.inE d) : ReachesCycle w.deps f :=
  waiting_reaches_cycle w inputs s h hq f hf

theorem acyclic_never_circular (w : World) (inputs : List File) (s : St) (h : Reach w inputs s) (hq : s.pool = [])
    (hac : ∀ f, ¬ ReachesCycle w.deps f) : ¬ Leftover s := by
  rintro ⟨d, a, ha⟩
  exact hac a (waiting_reaches_cycle w inputs s h hq a ⟨d, ha⟩)

/-- a file that reaches a cycle is never finished (so a run that needs it never reports success):
finished files cannot reach a cycle, under every interleaving -/
theorem cyclic_never_finished {C : Type} (w : World) (R : Sem C) (hR : RenderLocal w R) (inputs : List File)
    (out0 : File → OutState C) (x : WSt C) (h : WReach w R inputs out0 x) :
    ∀ f ∈ x.st.dm.fin, ¬ ReachesCycle w.deps f := finished_no_cycle w R hR inputs out0 x h

/-- the acyclic part is spared: at quiescence every seen file that cannot reach a cycle is finished -/
theorem acyclic_part_built (w : World) (inputs : List File) (s : St) (h : Reach w inputs s) (hq : s.pool = [])
    (f : File) (hf : f ∈ s.seen) (hnc : ¬ ReachesCycle w.deps f) : f ∈ s.dm.fin := by
  rcases quiescent_cover w inputs s h hq f hf with hw | hfin
  · exact absurd (waiting_reaches_cycle w inputs s h hq f hw) hnc
  · exact hfin

/-- … and built correctly: its output is the complete sequential value (as in C02) -/
theorem acyclic_part_correct {C : Type} (w : World) (R : Sem C) (hR : RenderLocal w R) (inputs : List File)
    (out0 : File → OutState C) (x : WSt C) (h : WReach w R inputs out0 x) (f : File) (hf : f ∈ x.st.dm.fin) :
    x.outp f = .complete (seqVal R x.st.dm.fin f) := (wreach_inv w R hR inputs out0 x h).finOut f hf

/-- never hangs: the delivery bound of C03 does not assume acyclicity -/
theorem cycles_terminate (w : World) (inputs U : List File) (n : Nat) (s : St) (h : ReachN w inputs n s)
    (hseen : s.seen.length ≤ U.length) : n ≤ 2 * U.length := Coord.terminates w inputs U n s h hseen

theorem cycles_terminate_closed (w : World) (inputs U : List File) (hin : ∀ i ∈ inputs, i ∈ U)
    (hcl : ∀ f ∈ U, ∀ d ∈ w.deps f, d ∈ U) (n : Nat) (s : St) (h : ReachN w inputs n s) : n ≤ 2 * U.length :=
  terminates_closed w inputs U hin hcl n s h

/-- **concrete run: a circular-dependency verdict is always justified.** `runProjectT` is `Txtpp::run` over
the model file system with its trace (the deliveries that really happened). If the verdict is `circular`,
nothing is in flight, some file is still waiting, and in the world that tabulates exactly the deliveries of
this trace - the dependency lists the first passes of this very run reported - it reaches a cycle. -/
theorem concrete_circular_verdict_has_a_cycle (cfg : Txt.Cfg) (fs : Txt.FS) (inputs : List (List Char)) (idx : List File)
    (s : Txt.PSt) (hist : List (Task × Res)) (ht : Txt.runProjectT cfg fs inputs = some (idx, s, hist))
    (h : (Txt.runProject cfg fs inputs).1 = .circular) :
    s.st.pool = [] ∧ ∃ w : World, (∀ t r, (t, r) ∈ hist → w.result t = r) ∧
      ∃ f, (∃ d, f ∈ s.st.dm.inE d) ∧ ReachesCycle w.deps f :=
  Txt.trace_circular_has_cycle cfg fs inputs idx s hist ht h

end C05

import Txtpp.Lemmas.SinkFacts
import Txtpp.Lemmas.ProjectFacts
/-!
# Property C10 — txtpp only ever writes its own outputs and temp targets
-/
namespace C10
open Txt

/-- Frame condition of the model: in every mode, for every source and whatever the outcome of the
pass, a path that is not in the touch set afterwards has exactly the bytes it had before, and the
touch set only grows. (`touched` is what the correspondence compares with inode/mtime changes of
the real run; it is extended only by writes/removals of the output path and of resolved temp
targets.) -/
theorem untouched_unchanged (cfg : Cfg) (fs : FS) (src : Path) (first : Bool) :
    Untouched fs (runPass cfg fs src first).2 := runPass_untouched cfg fs src first

/-- … and for the complete run (input resolution, scanning, every pass of every file the coordinator
schedules), in every mode and whatever the verdict -/
theorem whole_run_untouched_unchanged (cfg : Cfg) (fs : FS) (inputs : List (List Char)) :
    Untouched fs (runProject cfg fs inputs).2 := runProject_untouched cfg fs inputs

/-- vocabulary commands never change a file -/
theorem commands_change_no_file (cfg : Cfg) (wd : Path) (src : List Char) (fs : FS) (acts : List (List Char × List Char))
    (out : ByteArray) (ok : Bool) :
    (runActs cfg wd src fs acts out ok).2.2.files = fs.files ∧ (runActs cfg wd src fs acts out ok).2.2.touched = fs.touched :=
  runActs_files cfg wd src fs acts out ok

/-- verify does no write of its own: opening and finishing leave the file system as it is -/
theorem verify_open_close_readonly (fs fs1 : FS) (o : Path) (new : ByteArray)
    (h : sinkStart .verify fs o = some fs1) : fs1 = fs ∧ (sinkEnd .verify fs1 o new).2 = fs1 :=
  ⟨(sinkStart_verify fs fs1 o h).1, (sinkEnd_verify fs1 o new).1⟩

/-- clean creates nothing -/
theorem clean_creates_nothing (cfg : Cfg) (wd : Path) (src : List Char) (q : Path) :
    OpsPreserve (fileWorld cfg wd src) .clean (fun fs => fs.file? q = none) := removeTemp_creates_nothing cfg wd src q

/-- a write touches exactly its own path -/
theorem write_frame (fs : FS) (p q : Path) (b : ByteArray) (h : q ≠ p) : (fs.write p b).file? q = fs.file? q :=
  file?_write_other fs p q b h

theorem remove_frame (fs : FS) (p q : Path) (h : q ≠ p) : (fs.remove p).file? q = fs.file? q :=
  file?_remove_other fs p q h

end C10

import Txtpp.Lemmas.SinkFacts
import Txtpp.Lemmas.ProjectFacts
import Txtpp.Lemmas.TouchScope
/-!
# Property C10 — txtpp only ever writes its own outputs and temp targets
-/
namespace C10
open Txt

/-- Frame condition of the model: in every mode, for every source and whatever the outcome of the
pass, a path that is not in the touch set afterwards has exactly the bytes it had before, and the
touch set only grows. (`touched` is what the correspondence compares with inode/mtime changes of
the real run; it is extended only by writes/removals of the output path and of resolved temp
targets.) -/
theorem untouched_unchanged (cfg : Cfg) (fs : FS) (src : Path) (first : Bool) :
    Untouched fs (runPass cfg fs src first).2 := runPass_untouched cfg fs src first

/-- … and for the complete run (input resolution, scanning, every pass of every file the coordinator
schedules), in every mode and whatever the verdict -/
theorem whole_run_untouched_unchanged (cfg : Cfg) (fs : FS) (inputs : List (List Char)) :
    Untouched fs (runProject cfg fs inputs).2 := runProject_untouched cfg fs inputs

/-- vocabulary commands never change a file -/
theorem commands_change_no_file (cfg : Cfg) (wd : Path) (src : List Char) (fs : FS) (acts : List (List Char × List Char))
    (out : ByteArray) (ok : Bool) :
    (runActs cfg wd src fs acts out ok).2.2.files = fs.files ∧ (runActs cfg wd src fs acts out ok).2.2.touched = fs.touched :=
  runActs_files cfg wd src fs acts out ok

/-- verify does no write of its own: opening and finishing leave the file system as it is -/
theorem verify_open_close_readonly (fs fs1 : FS) (o : Path) (new : ByteArray)
    (h : sinkStart .verify fs o = some fs1) : fs1 = fs ∧ (sinkEnd .verify fs1 o new).2 = fs1 :=
  ⟨(sinkStart_verify fs fs1 o h).1, (sinkEnd_verify fs1 o new).1⟩

/-- clean creates nothing -/
theorem clean_creates_nothing (cfg : Cfg) (wd : Path) (src : List Char) (q : Path) :
    OpsPreserve (fileWorld cfg wd src) .clean (fun fs => fs.file? q = none) := removeTemp_creates_nothing cfg wd src q

/-- a write touches exactly its own path -/
theorem write_frame (fs : FS) (p q : Path) (b : ByteArray) (h : q ≠ p) : (fs.write p b).file? q = fs.file? q :=
  file?_write_other fs p q b h

theorem remove_frame (fs : FS) (p q : Path) (h : q ≠ p) : (fs.remove p).file? q = fs.file? q :=
  file?_remove_other fs p q h

/-- The write scope of one pass, stated over the source text: whatever the mode and the outcome,
the directories are unchanged and every path the pass adds to the touch set is the source's output
path or the resolution (from the source's directory) of the target of a `temp` block of the text it
read. Together with `untouched_unchanged`: no other file changes. -/
theorem pass_writes_only_output_and_temp_targets (cfg : Cfg) (fs : FS) (src : Path) (first : Bool) :
    (runPass cfg fs src first).2.dirs = fs.dirs ∧
    ∀ p ∈ (runPass cfg fs src first).2.touched, p ∈ fs.touched ∨
      ∃ content, fs.file? src = some content ∧
        (outputPath src = some p ∨ TempTarget cfg fs src.dropLast (decodeLines (byteLines content.toList)).1 p) :=
  ⟨(runPass_scope cfg fs src first).1, (runPass_scope cfg fs src first).2.1⟩

/-- … directly on contents (no touch set): a path that is neither the output path nor the resolved
non-`.txtpp` target of a `temp` block of the source holds after the pass exactly what it held before -/
theorem pass_changes_nothing_outside_its_scope (cfg : Cfg) (fs : FS) (src : Path) (first : Bool) (q : Path)
    (hq : ¬ ∃ content, fs.file? src = some content ∧
        (outputPath src = some q ∨ TempTarget cfg fs src.dropLast (decodeLines (byteLines content.toList)).1 q)) :
    (runPass cfg fs src first).2.file? q = fs.file? q :=
  (runPass_scope cfg fs src first).2.2 q hq

/-- … and for the complete run: every touched path is the output path or a `temp` target of a source
whose bytes are those of the initial file system, or of a source the run itself generated -/
theorem run_writes_only_outputs_and_temp_targets (cfg : Cfg) (fs : FS) (inputs : List (List Char)) :
    ∀ p ∈ (runProject cfg fs inputs).2.touched, p ∈ fs.touched ∨
      ∃ src content,
        (outputPath src = some p ∨ TempTarget cfg fs src.dropLast (decodeLines (byteLines content.toList)).1 p) ∧
        (fs.file? src = some content ∨ src ∈ (runProject cfg fs inputs).2.touched) :=
  (runProject_runScope cfg fs inputs).2.2

/-- no run creates or removes a directory -/
theorem directories_never_change (cfg : Cfg) (fs : FS) (inputs : List (List Char)) :
    (runProject cfg fs inputs).2.dirs = fs.dirs := (runProject_runScope cfg fs inputs).2.1

/-- the block structure used above is that of the grammar alone (no world, no line ending) -/
theorem blocks_depend_on_text_only {W : Type} (Wd : World W) (mode : Mode) (le : List Char) (lines : List (List Char)) :
    Refine.parse (txtppSem Wd mode le) none lines = srcBlocks mode lines := parse_eq_srcBlocks Wd mode le lines

/-- non-vacuity: a two-line temp block is a block of its text, with its target as first argument -/
example : srcBlocks .build [['-', 'T', 'X', 'T', 'P', 'P', '#', 't', 'e', 'm', 'p', ' ', 'x', '.', 't', 'x', 't'], ['-', 'b', 'o', 'd', 'y']] =
    some [Refine.Block.dir ⟨[], ['-'], .temp, [['x', '.', 't', 'x', 't'], ['b', 'o', 'd', 'y']]⟩ true] := by rfl

end C10

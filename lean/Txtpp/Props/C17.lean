import Txtpp.Model.Fs
import Txtpp.Lemmas.ShellFacts
import Txtpp.Lemmas.EntryGuard
import Txtpp.Lemmas.ShellSplit
/-!
# Property C17 — run commands execute in the source's directory with the documented contract

What the OS does with `Command::current_dir`, `env` and `arg` is outside a Lean model; the
correspondence M9 runs real `sh` (`pwd -P`, `printf %s "$TXTPP_FILE"`, an argv-logging shell) for
every depth x base/cwd relation x entry point. The theorems state what the model hands to the
shell.
-/
namespace C17
open Txt

/-- the command handed to the shell is the argument lines joined by single spaces, as one string,
and its failure fails the directive (non-zero exit ⇒ error) -/
theorem cmd_join_and_status {W : Type} (Wd : World W) (mode : Mode) (le : List Char) (s : PpState W) (d : Directive)
    (hm : mode ≠ .clean) (hty : d.ty = .run) (hpm : s.pm = .exec) :
    execDirective Wd mode le s d =
      (match Wd.run s.w (joinWith [' '] d.args) with
       | (none, _) => none
       | (some out, w') => some (routeOutput le { s with w := w' } d.ws out)) := by
  simp only [execDirective, hm, hty, hpm, PpMode.isExecute, if_false, if_true, Bool.not_true, Bool.false_eq_true]
  rcases Wd.run s.w (joinWith [' '] d.args) with ⟨o, w'⟩
  cases o <;> simp [hpm]

/-- `path_string_from_base`: the display form of a path below the base is the path relative to it -/
def display (base p : Path) : Path :=
  if base = p then p else if base.isPrefixOf p then p.drop base.length else p

/-- TXTPP_FILE designates the source: joining the base directory with the displayed form gives
the source path back, for every depth below the base -/
theorem txtpp_file_designates (base rel : Path) (h : rel ≠ []) : base ++ display base (base ++ rel) = base ++ rel := by
  have hne : base ≠ base ++ rel := by
    intro e
    have := congrArg List.length e
    simp only [List.length_append] at this
    exact h (List.eq_nil_of_length_eq_zero (by omega))
  have hp : base.isPrefixOf (base ++ rel) = true := List.isPrefixOf_iff_prefix.2 (List.prefix_append _ _)
  simp [display, hne, hp]

/-- the working directory of a command is the directory containing the source: in the model the
world of a source at `dir ++ [name]` resolves command arguments and `pwd` against `dir` — for
every nesting depth, independently of the process cwd (the repaired tree passes the absolute
path; finding F1) -/
theorem cwd_is_source_dir (cfg : Cfg) (dir : Path) (name : List Char) (fs : FS) :
    (runAct cfg (dir ++ [name]).dropLast (joinPath (dir ++ [name])) fs "pwd".toList []).1 =
      encodeUtf8 (cfg.baseAbs ++ (if dir = [] then [] else '/' :: joinPath dir) ++ ['\n']) := by
  simp [runAct]

example : display [['b']] [['b'], ['s', 'u', 'b'], ['a']] = [['s', 'u', 'b'], ['a']] := by decide

/-- whatever shell is configured (`-s`, split at white space; empty = `sh -c`) and whatever the command
contains, the child process receives the shell's fixed arguments followed by the command as exactly
one argument - nothing is re-split or re-quoted -/
theorem command_is_one_verbatim_argument (shellCmd command : List Char) :
    (shellArgv shellCmd command).getLast? = some command ∧
    (shellArgv shellCmd command).length = (shellOf shellCmd).2.length + 2 := shellArgv_last shellCmd command

theorem default_shell_is_sh_c : shellOf [] = ("sh".toList, ["-c".toList]) := shellOf_default

/-- **the guard of `main`**: the binary refuses to start (no configuration is built, nothing runs) exactly when
`TXTPP_FILE` is set to a non-empty text - whatever the command line says; otherwise it runs the configuration
of the command line, unchanged -/
theorem refuses_to_start_iff_txtpp_file_set (e : EnvVar) (p : CliParsed) :
    (entry e p = none ↔ ∃ s, e = .val s ∧ s ≠ []) ∧ (∀ c, entry e p = some c → c = p.config) :=
  ⟨entry_none_iff e p, fun c h => entry_some e p c h⟩

/-- **commands cannot recurse into txtpp**: the value a command of the source `dir/name` finds in `TXTPP_FILE`
(the `file` action of the model's command world, `Shell::run`'s `.env(TXTPP_FILE, file)`) is the displayed
source path, which is never empty - so a txtpp binary started by that command, with any command line,
refuses to start -/
theorem commands_cannot_recurse (cfg : Cfg) (dir : Path) (name : Str) (hn : name ≠ []) (fs : FS) (p : CliParsed) :
    (runAct cfg (dir ++ [name]).dropLast (joinPath (dir ++ [name])) fs "file".toList []).1 =
      encodeUtf8 (joinPath (dir ++ [name])) ∧
    entry (.val (joinPath (dir ++ [name]))) p = none := by
  refine ⟨by simp [runAct], (entry_none_iff _ p).2 ⟨_, rfl, joinPath_file_ne_nil dir name hn⟩⟩

example : entry (.val "a.txt.txtpp".toList) {} = none ∧ entry .unset {} = some ({} : CliParsed).config ∧
    entry (.val []) {} ≠ none ∧ entry .notUnicode {} ≠ none := by decide

/-- the configured shell (`-s`) is split at white space and nowhere else: the executable and each fixed argument
are non-empty and contain no white space; a blank setting means `sh -c` -/
theorem shell_setting_is_split_at_white_space (shellCmd : Str) :
    (∀ t ∈ (shellOf shellCmd).1 :: (shellOf shellCmd).2, t ≠ [] ∧ ∀ c ∈ t, isWs c = false) ∧
    ((∀ c ∈ shellCmd, isWs c = true) → shellOf shellCmd = ("sh".toList, ["-c".toList])) := shellOf_tokens shellCmd

example : shellOf "  bash  -e -c ".toList = ("bash".toList, ["-e".toList, "-c".toList]) := by decide

/-- a source that is not below the base directory *component-wise* keeps its full (absolute) path in
`TXTPP_FILE` - a sibling directory whose name merely extends the base directory's name as text
(`site` / `site-gen`) is not below it (`Path::strip_prefix` compares components) -/
theorem txtpp_file_outside_base (base p : Path) (h : base.isPrefixOf p = false) : display base p = p := by
  unfold display
  split
  · rfl
  · simp [h]

example : display ["r".toList, "site".toList] ["r".toList, "site-gen".toList, "p.txt.txtpp".toList] =
    ["r".toList, "site-gen".toList, "p.txt.txtpp".toList] := by decide

end C17

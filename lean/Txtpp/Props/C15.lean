import Txtpp.Lemmas.TextIff
import Txtpp.Lemmas.AddLineIff
/-!
# Property C15 — directive recognition and continuation follow the documented grammar

`Txt.detectFrom` / `Txt.addLine` are the executable models of `Directive::detect_from` /
`Directive::add_line` (tied to the code by correspondence M1/M2, bounded-exhaustive, in process).
`Txt.IsDirectiveLine` / `Txt.Continues` are the two sentences of the property, written declaratively.
-/
namespace C15
open Txt

/-- A line starts a directive iff, after its leading whitespace, the first `TXTPP#` on the line is
immediately followed by one of the seven names and then a space or end of line; the text before it
is the prefix and the trimmed rest is the first argument. -/
theorem detect_iff_grammar (line : Str) (d : Directive) :
    detectFrom line = some d ↔ IsDirectiveLine line d := detectFrom_iff line d

/-- "any other line is ordinary text" -/
theorem ordinary_iff_no_parse (line : Str) :
    detectFrom line = none ↔ ∀ d, ¬ IsDirectiveLine line d := by
  constructor
  · intro h d hd; rw [(detectFrom_iff line d).2 hd] at h; cases h
  · intro h
    cases hd : detectFrom line with
    | none => rfl
    | some d => exact absurd ((detectFrom_iff line d).1 hd) (h d)

/-- the parse of a directive line is unique -/
theorem parse_unique (line : Str) (d₁ d₂ : Directive)
    (h₁ : IsDirectiveLine line d₁) (h₂ : IsDirectiveLine line d₂) : d₁ = d₂ := by
  have a := (detectFrom_iff line d₁).2 h₁
  have b := (detectFrom_iff line d₂).2 h₂
  rw [a] at b; exact Option.some.inj b

/-- A following line continues a run/temp/write/empty directive iff it starts with the identical
leading whitespace followed by the same prefix, or by as many spaces as the prefix is long (in
UTF-8 bytes), or consists of the prefix without its trailing whitespace; its remainder,
right-trimmed, becomes the next argument; otherwise the directive ends there. -/
theorem continuation_iff_grammar (d d' : Directive) (line : Str) :
    addLine d line = some d' ↔ d.ty.multi = true ∧ ∃ a, Continues d line a ∧ d' = d.push a :=
  addLine_iff d d' line

/-- include / after / tag never take a second line -/
theorem single_line_types (d : Directive) (line : Str) (h : d.ty.multi = false) : addLine d line = none := by
  simp [addLine, h]

theorem multi_iff (t : DType) : t.multi = true ↔ (t = .run ∨ t = .temp ∨ t = .write ∨ t = .empty) := by
  cases t <;> simp [DType.multi]

/-- the three accepted forms never disagree about the argument -/
theorem continuation_arg_unique (d : Directive) (line a b : Str) (hm : d.ty.multi = true)
    (ha : Continues d line a) (hb : Continues d line b) : a = b :=
  continues_functional d line a b hm ha hb

/-! Non-vacuity: concrete lines that satisfy the grammar (evaluated by the kernel). -/
example : detectFrom [' ', ' ', '-', 'T', 'X', 'T', 'P', 'P', '#', 'r', 'u', 'n', ' ', ' ', 'a', ' ']
    = some ⟨[' ', ' '], ['-'], .run, [['a']]⟩ := by decide
example : IsDirectiveLine [' ', '/', '/', 'T', 'X', 'T', 'P', 'P', '#'] ⟨[' '], ['/', '/'], .empty, [[]]⟩ :=
  (detectFrom_iff _ _).1 (by decide)
example : detectFrom ['T', 'X', 'T', 'P', 'P', '#', 'r', 'u', 'n', 'x'] = none := by decide
example : addLine ⟨[' '], ['/', '/', ' '], .run, [['a']]⟩ [' ', '/', '/'] = some ⟨[' '], ['/', '/', ' '], .run, [['a'], []]⟩ := by decide
example : Continues ⟨[' '], ['-'], .write, []⟩ [' ', ' ', 'b', ' '] ['b'] :=
  ⟨[' ', 'b', ' '], rfl, Or.inr (Or.inr ⟨['b', ' '], rfl, by decide⟩)⟩

end C15

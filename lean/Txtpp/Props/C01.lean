import Txtpp.Lemmas.MachineSpec
import Txtpp.Model.Pp
import Txtpp.Model.Lines
/-!
# Property C01 — output conforms to the documented directive semantics

`Refine.machine` is the model of `Pp::run_internal` (streaming: current directive, tail line,
pending-newline flag). `Refine.spec` = `parse → eval → render` is the README read literally:
group lines into text lines and directive blocks, evaluate the blocks left to right, splice the
chunks (a text line owes a line ending, directive output is spliced verbatim, a directive that
ends the file counts like a text line, the last owed line ending is written iff `trailing`).
`Txt.txtppSem` plugs the seven directives, tags, temp files and the first/second-pass modes into
both; `Txt.ppPass` (compared with the code by correspondence M5) is the machine plus the
end-of-file checks.
-/
namespace C01
open Txt Refine

/-- The streaming machine equals the specification, for every directive semantics `S`, every
trailing option, start state and source — including *whether* it fails. -/
theorem machine_refines_spec {D σ : Type} (S : Sem D σ) (t : Bool) (s0 : σ) (lines : List (List Char)) :
    machine S t s0 lines = spec S t s0 lines := Refine.machine_eq_spec S t s0 lines

/-- The per-file pass of txtpp in terms of the specification: `ppPass` is `spec` at the txtpp
directive semantics followed by the end-of-file checks (dependencies found → second pass needed;
tags left over → error). -/
theorem pp_refines_spec {W : Type} (Wd : World W) (mode : Mode) (le : List Char) (first trailing : Bool) (w : W)
    (lines : List (List Char)) :
    ppPass Wd mode le first trailing w lines true =
      (match spec (txtppSem Wd mode le) trailing ⟨TagState.empty, if first then .firstExec else .exec, w⟩ lines with
       | none => .err
       | some (s, out) =>
         match s.pm with
         | .collect deps => .hasDeps deps s.w
         | _ => if s.tags.hasTags && mode != .clean then .err else .ok out s.w) := by
  unfold ppPass
  simp only [Bool.not_true, Bool.false_eq_true, if_false]
  rw [Refine.machine_eq_spec]
  rfl

/-- The build fails iff the semantics prescribe an error: parse error (prefix-less multi-line
directive), a failing directive (missing include, failing command, tag misuse, bad temp target),
or an unused tag at end of file. -/
theorem fails_iff {W : Type} (Wd : World W) (le : List Char) (trailing : Bool) (w : W) (lines : List (List Char)) :
    ppPass Wd .build le false trailing w lines true = .err ↔
      (parse (txtppSem Wd .build le) none lines = none ∨
       (∃ bs, parse (txtppSem Wd .build le) none lines = some bs ∧
          eval (txtppSem Wd .build le) ⟨TagState.empty, .exec, w⟩ bs = none) ∨
       (∃ bs s cs, parse (txtppSem Wd .build le) none lines = some bs ∧
          eval (txtppSem Wd .build le) ⟨TagState.empty, .exec, w⟩ bs = some (s, cs) ∧
          ((∃ deps, s.pm = .collect deps) = False) ∧ s.tags.hasTags = true)) := by
  rw [pp_refines_spec]
  simp only [spec, if_false, Bool.false_eq_true]
  cases hp : parse (txtppSem Wd .build le) none lines with
  | none => simp
  | some bs =>
    simp only
    cases he : eval (txtppSem Wd .build le) ⟨TagState.empty, .exec, w⟩ bs with
    | none => simp [he]
    | some r =>
      obtain ⟨s, cs⟩ := r
      simp only
      cases hpm : s.pm with
      | collect deps => simp [he, hpm]
      | firstExec => cases ht : s.tags.hasTags <;> simp [he, hpm, ht]
      | exec => cases ht : s.tags.hasTags <;> simp [he, hpm, ht]

/-! ### reading `render`: the splice rule of the README, as equations -/

/-- an ordinary line owes a line ending: the next chunk starts on a new line -/
theorem text_line_then_chunk (le : List Char) (tr p b : Bool) (t u : List Char) (rest : List Chunk) :
    render le tr p (⟨t, true⟩ :: ⟨u, b⟩ :: rest) = (if p then le else []) ++ t ++ (le ++ u ++ render le tr b rest) := by
  simp [render]

/-- directive output is spliced verbatim: when it is followed by more input (it does not end the
file) nothing is inserted after it, so a missing final newline joins it to the following text -/
theorem directive_output_joins_next (le : List Char) (tr p b : Bool) (c u : List Char) (rest : List Chunk) :
    render le tr p (⟨c, false⟩ :: ⟨u, b⟩ :: rest) = (if p then le else []) ++ c ++ (u ++ render le tr b rest) := by
  simp [render]

/-- the last owed line ending is written iff the trailing option is on -/
theorem final_line_ending (le : List Char) (tr p : Bool) (t : List Char) :
    render le tr p [⟨t, true⟩] = (if p then le else []) ++ t ++ (if tr then le else []) := by
  simp [render]

/-- a directive's formatted output is its raw output re-split into lines, each indented by the
directive's leading whitespace, joined by the source's line ending, with a final one iff the raw
output ended in a newline -/
theorem formatted_output (le ws raw : List Char) :
    formatOutput le ws raw = joinWith le ((rustLines raw).map (ws ++ ·)) ++ (if endsNl raw then le else []) := rfl

end C01

import Txtpp.Lemmas.ConcreteCoord
import Txtpp.Model.Panic
import Txtpp.Lemmas.Term
import Txtpp.Lemmas.InjectSpec
/-!
# Property C18 — no input or configuration makes txtpp panic or hang

Every panic-capable expression of the anchored files is a numbered site with a theorem that it
cannot fail for any input (sites are slices `&s[a..b]`, index expressions, `unwrap`, `assert!`).
`byteSplit s n` is defined exactly when byte offset `n` is a char boundary `≤ len`, i.e. exactly
when the Rust slice does not panic.
-/
namespace C18
open Txt

/-- the basic fact behind every slice site: slicing at the byte length of a prefix is defined -/
theorem slice_at_prefix_len (a b : List Char) : byteSplit (a ++ b) (utf8Len a) = some (a, b) := byteSplit_append a b

/-- directive_from.rs:20-21 `&line[..first_non_whitespace]`, `&line[first_non_whitespace..]` -/
theorem site_detect_ws (line : List Char) :
    byteSplit line (utf8Len (line.takeWhile isWs)) = some (line.takeWhile isWs, line.dropWhile isWs) := detect_site_ws line

/-- directive_from.rs:24-25 `(&line[i..], &line[..i])` for `i = line.find("TXTPP#")` -/
theorem site_detect_find (rest pre fromHash : List Char) (h : findSub hash rest = some (pre, fromHash)) :
    byteSplit rest (utf8Len pre) = some (pre, fromHash) := detect_site_find rest pre fromHash h

/-- directive_from.rs:30 `&line[TXTPP_HASH.len()..]` -/
theorem site_detect_marker (rest pre fromHash : List Char) (h : findSub hash rest = some (pre, fromHash)) :
    ∃ after, byteSplit fromHash (utf8Len hash) = some (hash, after) := detect_site_marker rest pre fromHash h

/-- directive_add_line.rs:18 `&line[self.whitespaces.len()..]` (guarded by `starts_with`) -/
theorem site_addline_ws (ws line : List Char) (h : ws.isPrefixOf line = true) :
    byteSplit line (utf8Len ws) = some (ws, line.drop ws.length) := addline_site_ws ws line h

/-- directive_add_line.rs:25 `line[self.prefix.len()..]`: guarded by `starts_with(prefix)` or by
`starts_with(" ".repeat(prefix.len()))` — the same byte count in both cases, so always a boundary
(this is the site a `chars().count()` "fix" would break for non-ASCII prefixes) -/
theorem site_addline_prefix (pre rest : List Char)
    (h : pre.isPrefixOf rest = true ∨ (spaces (utf8Len pre)).isPrefixOf rest = true) :
    ∃ a b, byteSplit rest (utf8Len pre) = some (a, b) := addline_site_prefix pre rest h

/-- directive/mod.rs:41-45 `self.args[0]` in `Display`: arguments are never empty -/
theorem site_display_args (line : List Char) (d : Directive) (h : detectFrom line = some d) : d.args ≠ [] :=
  detect_args_nonempty line d h

theorem site_display_args_after_addline (d d' : Directive) (line : List Char) (h : addLine d line = some d') : d'.args ≠ [] :=
  addLine_args_nonempty d d' line h

/-- tag_state.rs:69 `assert!(!output.ends_with('\n'))`: lines coming from `lines()` never end in a newline -/
theorem site_inject_assert (s : List Char) : ∀ l ∈ rustLines s, endsNl l = false := rustLines_no_trailing_nl s

/-- dependency.rs:66 `out_edge_counts.get_mut(&depender).unwrap()`: cannot fail in any reachable
coordinator state, for any dependency graph and any schedule -/
theorem site_notify_finish_unwrap (w : Coord.World) (inputs : List Coord.File) (s : Coord.St) (h : Coord.Reach w inputs s)
    (t : Coord.Task) (ht : t ∈ s.pool) :
    Coord.handle { s with pool := s.pool.erase t } (w.result t) ≠ .panic := Coord.never_panics w inputs s h t ht

/-- no hang: the coordinator's exit test is equivalent to "nothing in flight", and the number of
deliveries is bounded (so, given that no worker panics, the loop ends) -/
theorem no_hang (w : Coord.World) (inputs U : List Coord.File) (n : Nat) (s : Coord.St) (h : Coord.ReachN w inputs n s)
    (hseen : s.seen.length ≤ U.length) :
    n ≤ 2 * U.length ∧ (s.done = s.total ↔ s.pool = []) :=
  ⟨Coord.terminates w inputs U n s h hseen, Coord.acct w inputs s (Coord.reachN_reach w inputs n s h)⟩

/-- tag_state.rs:84,92 `&output[last_end..*i]`, `&output[last_end..]`: for every substituted
occurrence the previous end is ≤ its start (so the range is not inverted), its end is within the
line, and both offsets are the byte lengths of prefixes of the line (char boundaries) -/
theorem site_inject_slices (t : TagState) (line : List Char) :
    let sel := select (sortM (matchesOf t.stored line)) 0
    sel.Pairwise (fun a b => a.1 + a.2.1.length ≤ b.1) ∧
    (∀ m ∈ sel, m.1 + m.2.1.length ≤ line.length) ∧
    (∀ n, byteSplit line (utf8Len (line.take n)) = some (line.take n, line.drop n)) := by
  intro sel
  refine ⟨(select_nonoverlap _ 0).2, ?_, ?_⟩
  · intro m hm
    have hm1 := select_sub _ 0 m hm
    have hm2 : m ∈ matchesOf t.stored line := (sortM_perm _).subset hm1
    obtain ⟨_, hp, _⟩ := match_is_first_occurrence t.stored line m hm2
    have := hp.length_le
    simp only [List.length_drop] at this
    by_cases hl : m.1 ≤ line.length
    · omega
    · -- beyond the end `drop` is empty, so the name is empty and the index is a `find` result ≤ len
      have hd : line.drop m.1 = [] := List.drop_eq_nil_of_le (by omega)
      rw [hd] at hp
      have hk : m.2.1 = [] := List.eq_nil_of_prefix_nil hp
      -- the index comes from `findSub`, whose first component is a prefix of the line
      simp only [matchesOf, List.mem_filterMap, Option.map_eq_some_iff] at hm2
      obtain ⟨kv, _, i, hi, rfl⟩ := hm2
      unfold findIdx at hi
      cases hf : findSub kv.1 line with
      | none => simp [hf] at hi
      | some r =>
        obtain ⟨a, b⟩ := r
        simp [hf] at hi; subst hi
        have := (findSub_some _ _ _ _ hf).1
        have hlen : a.length ≤ line.length := by rw [this]; simp
        simp at hl; omega
  · intro n
    have := byteSplit_append (line.take n) (line.drop n)
    rwa [List.take_append_drop] at this

example : byteSplit ['é', 'x'] 1 = none := by decide
example : byteSplit ['é', 'x'] 2 = some (['é'], ['x']) := by decide

/-- site `dependency.rs` `unwrap` in `notify_finish`, for the concrete run: whatever the passes
deliver (their results depend on the file system at that moment), the whole run never reaches the
coordinator's panic branch -/
theorem site_notify_finish_unwrap_concrete (cfg : Cfg) (fs : FS) (inputs : List (List Char)) :
    (runProject cfg fs inputs).1 ≠ .panic := runProject_never_panics cfg fs inputs

/-- a final pass never reports dependencies and a reported dependency list is never empty: the two
facts that make the concrete results well-typed for the coordinator -/
theorem pass_reports_dependencies_only_as_first_pass (cfg : Cfg) (fs : FS) (src : Path) (first : Bool) (deps : List (List Char))
    (h : (runPass cfg fs src first).1 = .hasDeps deps) : first = true ∧ deps ≠ [] :=
  runPass_hasDeps cfg fs src first deps h

end C18

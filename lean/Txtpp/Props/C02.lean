import Txtpp.Lemmas.FreeWorld
import Txtpp.Lemmas.Term
import Txtpp.Lemmas.CollectInert
import Txtpp.Lemmas.Hermetic
/-!
# Property C02 — includes always see the complete, fresh output of their dependencies

`Coord.St` / `Coord.handle` model `Txtpp::run_internal` + `DepManager` + `Progress` (tied to the
code by the trace correspondence M6 under the schedule controller). `Coord.Step` delivers *any*
undelivered task result next, which covers every thread count and every OS schedule.
`Coord.WStep` adds what workers do (begin: the output is truncated; finish: a final pass writes
`render f (current outputs)`; deliver), interleaved arbitrarily.
-/
namespace C02
open Coord

/-- a second (final) pass of `a` is in flight only when every dependency of `a` has finished -/
theorem second_pass_after_deps (w : World) (inputs : List File) (s : St) (h : Reach w inputs s) (a : File)
    (ha : Task.pp a false ∈ s.pool) : ∀ d ∈ w.deps a, d ∈ s.dm.fin :=
  Coord.second_pass_after_deps w inputs s h a ha

/-- a finished file has no task in flight: its output is never truncated or rewritten again -/
theorem finished_is_quiet (w : World) (inputs : List File) (s : St) (h : Reach w inputs s) (a : File)
    (ha : a ∈ s.dm.fin) (b : Bool) : Task.pp a b ∉ s.pool :=
  Coord.finished_is_quiet w inputs s h a ha b

/-- at most one task per file is in flight (no two passes of one file overlap) -/
theorem one_task_per_file (w : World) (inputs : List File) (s : St) (h : Reach w inputs s) (a : File) :
    ¬ (Task.pp a true ∈ s.pool ∧ Task.pp a false ∈ s.pool) ∧ s.pool.Nodup :=
  Coord.one_task_per_file w inputs s h a

/-- The headline: at a successful exit, under every interleaving of begin / finish / deliver steps
and whatever stale or missing outputs were on disk at the start (`out0`), every seen file is
finished and its output is `complete (seqVal fin f)` — the value obtained by processing the
files one at a time in the (dependency) order `fin`; and these values solve
`out f = render f out`. -/
theorem concurrent_eq_sequential {C : Type} (w : World) (R : Sem C) (hR : RenderLocal w R) (inputs : List File)
    (out0 : File → OutState C) (x : WSt C)
    (h : WReach w R inputs out0 x) (hq : x.st.pool = []) (hno : ¬ Leftover x.st) :
    (∀ f ∈ x.st.seen, f ∈ x.st.dm.fin) ∧
    (∀ f ∈ x.st.dm.fin, x.outp f = .complete (seqVal R x.st.dm.fin f)) ∧
    (∀ f ∈ x.st.dm.fin, seqVal R x.st.dm.fin f = R.render f (seqVal R x.st.dm.fin)) :=
  success_outputs w R hR inputs out0 x h hq hno

/-- the sequential values do not depend on which dependency order was taken: any two solutions of
`out f = render f out` on a dependency-closed, topologically sorted list agree -/
theorem order_irrelevant {C : Type} (w : World) (R : Sem C) (hR : RenderLocal w R) (l : List File)
    (ht : TopoSorted w.deps l) (v1 v2 : File → C)
    (h1 : ∀ f ∈ l, v1 f = R.render f v1) (h2 : ∀ f ∈ l, v2 f = R.render f v2) : ∀ f ∈ l, v1 f = v2 f :=
  solution_unique w R hR l ht v1 v2 h1 h2

/-- while it holds, the invariant says: the output of every finished file is complete and equals
the sequential value, in *every* reachable state (not only at the exit) — so a final pass that is
running reads complete, fresh dependency outputs -/
theorem finished_outputs_complete {C : Type} (w : World) (R : Sem C) (hR : RenderLocal w R) (inputs : List File)
    (out0 : File → OutState C) (x : WSt C) (h : WReach w R inputs out0 x) :
    ∀ f ∈ x.st.dm.fin, x.outp f = .complete (seqVal R x.st.dm.fin f) :=
  (wreach_inv w R hR inputs out0 x h).finOut

/-- schedule independence, stated directly: any two successful executions of the same project (any
two interleavings, any two thread counts, any stale outputs on disk) finish the same files with
the same outputs -/
theorem schedule_independent {C : Type} (w : World) (R : Sem C) (hR : RenderLocal w R) (inputs : List File)
    (out0 out0' : File → OutState C) (x x' : WSt C)
    (h : WReach w R inputs out0 x) (h' : WReach w R inputs out0' x')
    (hq : x.st.pool = []) (hno : ¬ Leftover x.st) (hq' : x'.st.pool = []) (hno' : ¬ Leftover x'.st) :
    (∀ f, f ∈ x.st.dm.fin ↔ f ∈ x'.st.dm.fin) ∧ ∀ f ∈ x.st.dm.fin, x.outp f = x'.outp f :=
  hermetic w R hR inputs out0 out0' x x' h h' hq hno hq' hno'

/-- A command placed after an `after X` / `include X` line (X having a `.txtpp` source) never starts
before X is complete — part 1: in the first pass, meeting such a line switches to collect mode
without reading X, executing anything or producing output … -/
theorem dependency_enters_collect {W : Type} (Wd : Txt.World W) (mode : Txt.Mode) (hm : mode ≠ .clean) (le : List Char)
    (s : Txt.PpState W) (d : Txt.Directive) (dep : List Char)
    (hty : d.ty = .include ∨ d.ty = .after) (hpm : s.pm = .firstExec)
    (hdep : Wd.depOf s.w (d.args.headD []) = some (some dep)) :
    Txt.execDirective Wd mode le s d = some ({ s with pm := .collect [dep] }, none) := by
  have hdep' : Wd.depOf s.w (d.args.head?.getD []) = some (some dep) := by simpa using hdep
  rcases hty with hty | hty <;> simp [Txt.execDirective, hm, hpm, hty, hdep']

/-- … part 2: from then on every directive of that pass leaves the world and the tags untouched,
produces no output and stays in collect mode; ordinary lines are not written. The pass ends with
`hasDeps`, and the coordinator starts the second pass only after every dependency finished
(`second_pass_after_deps`). -/
theorem after_dependency_nothing_runs {W : Type} (Wd : Txt.World W) (mode : Txt.Mode) (hm : mode ≠ .clean) (le : List Char)
    (s s' : Txt.PpState W) (d : Txt.Directive) (o : Option (List Char)) (hc : Txt.isCollect s.pm = true)
    (h : Txt.execDirective Wd mode le s d = some (s', o)) :
    s'.w = s.w ∧ s'.tags = s.tags ∧ o = none ∧ Txt.isCollect s'.pm = true :=
  Txt.execDirective_collect Wd mode hm le s s' d o hc h

theorem after_dependency_nothing_written {W : Type} (Wd : Txt.World W) (mode : Txt.Mode) (le : List Char)
    (s : Txt.PpState W) (l : List Char) (hc : Txt.isCollect s.pm = true) :
    (Txt.txtppSem Wd mode le).text s l = (s, none) := Txt.text_collect Wd mode le s l hc

/-- **the same with results that depend on the file system** (what the real passes deliver; `FReach`, of
which the concrete sequential run `runLoop` is an instance - `Lemmas/ConcreteCoord.lean`): when the final
pass of a file is in flight, every dependency its first pass reported has already completed a pass that
ended `ok` - its output is finished before the includer's final pass reads it -/
theorem final_pass_after_dependencies_free_results (inputs : List File) (s : St) (hist : List (Task × Res))
    (h : FReach inputs s hist) (a : File) (ha : Task.pp a false ∈ s.pool) (deps : List File)
    (hd : (Task.pp a true, Res.hasDeps a deps) ∈ hist) : ∀ d ∈ deps, ∃ b, (Task.pp d b, Res.ok d) ∈ hist :=
  freach_second_pass_after_deps inputs s hist h a ha deps hd

end C02

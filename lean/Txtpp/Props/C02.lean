import Txtpp.Lemmas.Term
/-!
# Property C02 — includes always see the complete, fresh output of their dependencies

`Coord.St` / `Coord.handle` model `Txtpp::run_internal` + `DepManager` + `Progress` (tied to the
code by the trace correspondence M6 under the schedule controller). `Coord.Step` delivers *any*
undelivered task result next, which covers every thread count and every OS schedule.
`Coord.WStep` adds what workers do (begin: the output is truncated; finish: a final pass writes
`render f (current outputs)`; deliver), interleaved arbitrarily.
-/
namespace C02
open Coord

/-- a second (final) pass of `a` is in flight only when every dependency of `a` has finished -/
theorem second_pass_after_deps (w : World) (inputs : List File) (s : St) (h : Reach w inputs s) (a : File)
    (ha : Task.pp a false ∈ s.pool) : ∀ d ∈ w.deps a, d ∈ s.dm.fin :=
  Coord.second_pass_after_deps w inputs s h a ha

/-- a finished file has no task in flight: its output is never truncated or rewritten again -/
theorem finished_is_quiet (w : World) (inputs : List File) (s : St) (h : Reach w inputs s) (a : File)
    (ha : a ∈ s.dm.fin) (b : Bool) : Task.pp a b ∉ s.pool :=
  Coord.finished_is_quiet w inputs s h a ha b

/-- at most one task per file is in flight (no two passes of one file overlap) -/
theorem one_task_per_file (w : World) (inputs : List File) (s : St) (h : Reach w inputs s) (a : File) :
    ¬ (Task.pp a true ∈ s.pool ∧ Task.pp a false ∈ s.pool) ∧ s.pool.Nodup :=
  Coord.one_task_per_file w inputs s h a

/-- The headline: at a successful exit, under every interleaving of begin / finish / deliver steps
and whatever stale or missing outputs were on disk at the start (`out0`), every seen file is
finished and its output is `complete (seqVal fin f)` — the value obtained by processing the
files one at a time in the (dependency) order `fin`; and these values solve
`out f = render f out`. -/
theorem concurrent_eq_sequential {C : Type} (w : World) (R : Sem C) (hR : RenderLocal w R) (inputs : List File)
    (out0 : File → OutState C) (x : WSt C)
    (h : WReach w R inputs out0 x) (hq : x.st.pool = []) (hno : ¬ Leftover x.st) :
    (∀ f ∈ x.st.seen, f ∈ x.st.dm.fin) ∧
    (∀ f ∈ x.st.dm.fin, x.outp f = .complete (seqVal R x.st.dm.fin f)) ∧
    (∀ f ∈ x.st.dm.fin, seqVal R x.st.dm.fin f = R.render f (seqVal R x.st.dm.fin)) :=
  success_outputs w R hR inputs out0 x h hq hno

/-- the sequential values do not depend on which dependency order was taken: any two solutions of
`out f = render f out` on a dependency-closed, topologically sorted list agree -/
theorem order_irrelevant {C : Type} (w : World) (R : Sem C) (hR : RenderLocal w R) (l : List File)
    (ht : TopoSorted w.deps l) (v1 v2 : File → C)
    (h1 : ∀ f ∈ l, v1 f = R.render f v1) (h2 : ∀ f ∈ l, v2 f = R.render f v2) : ∀ f ∈ l, v1 f = v2 f :=
  solution_unique w R hR l ht v1 v2 h1 h2

/-- while it holds, the invariant says: the output of every finished file is complete and equals
the sequential value, in *every* reachable state (not only at the exit) — so a final pass that is
running reads complete, fresh dependency outputs -/
theorem finished_outputs_complete {C : Type} (w : World) (R : Sem C) (hR : RenderLocal w R) (inputs : List File)
    (out0 : File → OutState C) (x : WSt C) (h : WReach w R inputs out0 x) :
    ∀ f ∈ x.st.dm.fin, x.outp f = .complete (seqVal R x.st.dm.fin f) :=
  (wreach_inv w R hR inputs out0 x h).finOut

end C02

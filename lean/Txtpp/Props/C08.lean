import Txtpp.Lemmas.SinkFacts
import Txtpp.Lemmas.Hermetic
import Txtpp.Lemmas.PassRel
import Txtpp.Lemmas.ProjectRel
/-!
# Property C08 — builds are a function of the sources only (hermetic, idempotent)
-/
namespace C08
open Txt

/-- opening the output in build mode forgets whatever was there (stale text, truncated content,
arbitrary bytes, nothing): the file is empty afterwards and nothing else changed -/
theorem build_open_forgets (fs fs1 : FS) (o : Path) (h : sinkStart .build fs o = some fs1) :
    fs1.file? o = some ByteArray.empty ∧ ∀ q, q ≠ o → fs1.file? q = fs.file? q := sinkStart_build fs fs1 o h

/-- … and for two pre-states that differ only at the output path the states after opening agree
on every path -/
theorem build_open_hermetic (fs fs' fs1 fs1' : FS) (o : Path) (hagree : ∀ q, q ≠ o → fs.file? q = fs'.file? q)
    (h : sinkStart .build fs o = some fs1) (h' : sinkStart .build fs' o = some fs1') (q : Path) :
    fs1.file? q = fs1'.file? q := by
  obtain ⟨a1, a2⟩ := sinkStart_build fs fs1 o h
  obtain ⟨b1, b2⟩ := sinkStart_build fs' fs1' o h'
  by_cases hq : q = o
  · subst hq; rw [a1, b1]
  · rw [a2 q hq, b2 q hq]; exact hagree q hq

/-- a successful build pass ends with exactly the fresh output in the file -/
theorem build_done_writes (fs2 : FS) (o : Path) (new : ByteArray) :
    (sinkEnd .build fs2 o new).1 = .ok ∧ (sinkEnd .build fs2 o new).2.file? o = some new := sinkEnd_build fs2 o new

/-- the temp rule is hermetic: after a successful `write_temp_file` the target holds exactly the
new content, whatever it held before -/
theorem temp_overwrites (cfg : Cfg) (wd : Path) (src : List Char) (fs fs' : FS) (t c : List Char)
    (h : (fileWorld cfg wd src).writeTemp fs t c = some fs') :
    ∃ p, fs.resolve cfg wd t = some p ∧ fs'.file? p = some (encodeUtf8 c) := writeTemp_result cfg wd src fs fs' t c h

/-- building again over an up-to-date temp file changes nothing (idempotence of the temp rule) -/
theorem temp_idempotent (cfg : Cfg) (wd : Path) (src : List Char) (fs : FS) (t c : List Char) (p : Path)
    (hp : fs.resolve cfg wd t = some p) (hnd : fs.isDir p = false) (h : fs.file? p = some (encodeUtf8 c)) :
    (fileWorld cfg wd src).writeTemp fs t c = some fs := writeTemp_same cfg wd src fs t c p hp hnd h

/-- Project level, for every dependency graph and whatever a pass computes (`render`, local in its
dependencies): two successful runs over the same sources and inputs — started from *different*
contents of the generated files (`out0`, `out0'`: stale, truncated, arbitrary, absent), under
different schedules and thread counts — finish exactly the same set of files and leave every
output with the same value. The result depends on the sources only. -/
theorem builds_are_a_function_of_sources {C : Type} (w : Coord.World) (R : Coord.Sem C) (hR : Coord.RenderLocal w R)
    (inputs : List Coord.File) (out0 out0' : Coord.File → Coord.OutState C) (x x' : Coord.WSt C)
    (h : Coord.WReach w R inputs out0 x) (h' : Coord.WReach w R inputs out0' x')
    (hq : x.st.pool = []) (hno : ¬ Coord.Leftover x.st) (hq' : x'.st.pool = []) (hno' : ¬ Coord.Leftover x'.st) :
    (∀ f, f ∈ x.st.dm.fin ↔ f ∈ x'.st.dm.fin) ∧ ∀ f ∈ x.st.dm.fin, x.outp f = x'.outp f :=
  Coord.hermetic w R hR inputs out0 out0' x x' h h' hq hno hq' hno'

/-- **One pass is a function of the sources** (the instantiation of `render` for the concrete
preprocessor). Run a build / only-if-needed pass over `src` from two file systems that agree
outside a set `S` of stale paths (whatever earlier or interrupted runs left there: other bytes, a
prefix, nothing). If the source is not stale, no block reads a path while it is still stale
(`Safe`: an `include`/`cat` of a temp file *after* the `temp` block that writes it is fine) and no
dependency lookup probes a stale path, then the verdicts are equal and the resulting file systems
agree outside `S`; after an `ok` pass they also agree at the output and at every temp target written. -/
theorem pass_is_a_function_of_sources (cfg : Cfg) (hm : cfg.mode = .build ∨ cfg.mode = .inMemory) (a b : FS) (S : List Path)
    (src : Path) (first : Bool) (hag : Agree S a b) (hsrc : src ∉ S)
    (hsafe : ∀ content o bs, a.file? src = some content → outputPath src = some o →
      srcBlocks cfg.mode (decodeLines (byteLines content.toList)).1 = some bs →
      Safe cfg a src.dropLast bs (staleOpen cfg.mode S o) ∧ ProbesOK cfg a src.dropLast (staleOpen cfg.mode S o) bs) :
    (runPass cfg a src first).1 = (runPass cfg b src first).1 ∧
    Agree S (runPass cfg a src first).2 (runPass cfg b src first).2 ∧
    ((runPass cfg a src first).1 = .ok → ∀ content o bs, a.file? src = some content → outputPath src = some o →
      srcBlocks cfg.mode (decodeLines (byteLines content.toList)).1 = some bs →
      Agree ((staleAfter cfg a src.dropLast bs (staleOpen cfg.mode S o)).filter (· != o))
        (runPass cfg a src first).2 (runPass cfg b src first).2) :=
  runPass_rel cfg hm a b S src first hag hsrc hsafe

/-- **Leftovers at generated paths are irrelevant.** If the two pre-states differ only at paths this
pass generates itself (its output, its temp targets), then the verdicts are equal and after an `ok`
pass every path holds the same bytes in both. -/
theorem leftovers_at_generated_paths_irrelevant (cfg : Cfg) (hm : cfg.mode = .build ∨ cfg.mode = .inMemory) (a b : FS) (S : List Path)
    (src : Path) (first : Bool) (content : ByteArray) (o : Path) (bs : List (Refine.Block Directive))
    (hfile : a.file? src = some content) (hout : outputPath src = some o)
    (hbs : srcBlocks cfg.mode (decodeLines (byteLines content.toList)).1 = some bs)
    (hag : Agree S a b) (hsrc : src ∉ S) (hgen : ∀ p ∈ S, p ∈ generated cfg a src.dropLast o bs)
    (hsafe : Safe cfg a src.dropLast bs (staleOpen cfg.mode S o)) (hprobes : ProbesOK cfg a src.dropLast (staleOpen cfg.mode S o) bs) :
    (runPass cfg a src first).1 = (runPass cfg b src first).1 ∧
    ((runPass cfg a src first).1 = .ok → ∀ q, (runPass cfg a src first).2.file? q = (runPass cfg b src first).2.file? q) :=
  runPass_leftovers_irrelevant cfg hm a b S src first content o bs hfile hout hbs hag hsrc hgen hsafe hprobes

/-- **Building twice equals building once (one source).** -/
theorem build_twice_eq_once (cfg : Cfg) (hm : cfg.mode = .build ∨ cfg.mode = .inMemory) (a a' : FS) (src : Path) (first : Bool)
    (content : ByteArray) (o : Path) (bs : List (Refine.Block Directive))
    (hfile : a.file? src = some content) (hout : outputPath src = some o)
    (hbs : srcBlocks cfg.mode (decodeLines (byteLines content.toList)).1 = some bs)
    (hsrc : src ∉ generated cfg a src.dropLast o bs)
    (hsafe : Safe cfg a src.dropLast bs (staleOpen cfg.mode (generated cfg a src.dropLast o bs) o))
    (hprobes : ProbesOK cfg a src.dropLast (staleOpen cfg.mode (generated cfg a src.dropLast o bs) o) bs)
    (h1 : runPass cfg a src first = (.ok, a')) :
    (runPass cfg a' src first).1 = .ok ∧ ∀ q, (runPass cfg a' src first).2.file? q = a'.file? q :=
  runPass_idempotent cfg hm a a' src first content o bs hfile hout hbs hsrc hsafe hprobes h1

/-- The side condition is executable: `srcSafeB` (computed by the model driver for every source of
every generated tree of the C08 job, counts in the evidence) decides it, and where it answers `true`
building twice equals building once with no further hypothesis. -/
theorem build_twice_eq_once_where_checked (cfg : Cfg) (hm : cfg.mode = .build ∨ cfg.mode = .inMemory) (a a' : FS) (src : Path)
    (first : Bool) (hs : srcSafeB cfg a src = some true) (h1 : runPass cfg a src first = (.ok, a')) :
    (runPass cfg a' src first).1 = .ok ∧ ∀ q, (runPass cfg a' src first).2.file? q = a'.file? q :=
  idempotent_where_checked cfg hm a a' src first hs h1

/-- … and leftovers at the generated paths are irrelevant there -/
theorem leftovers_irrelevant_where_checked (cfg : Cfg) (hm : cfg.mode = .build ∨ cfg.mode = .inMemory) (a b : FS) (src : Path)
    (first : Bool) (hs : srcSafeB cfg a src = some true)
    (hag : ∀ content o bs, a.file? src = some content → outputPath src = some o →
      srcBlocks cfg.mode (decodeLines (byteLines content.toList)).1 = some bs → Agree (generated cfg a src.dropLast o bs) a b) :
    (runPass cfg a src first).1 = (runPass cfg b src first).1 ∧
    ((runPass cfg a src first).1 = .ok → ∀ q, (runPass cfg a src first).2.file? q = (runPass cfg b src first).2.file? q) :=
  leftovers_where_checked cfg hm a b src first hs hag

/-- what is still stale after the blocks of a source are exactly the stale paths no temp block wrote -/
theorem stale_after_characterised (cfg : Cfg) (fs0 : FS) (wd : Path) (q : Path) (bs : List (Refine.Block Directive)) (S : List Path) :
    q ∈ staleAfter cfg fs0 wd bs S ↔ q ∈ S ∧ ∀ d e, Refine.Block.dir d e ∈ bs → dirWrites cfg fs0 wd d ≠ some q :=
  mem_staleAfter cfg fs0 wd q bs S

/-- the side condition is the honest one: a source that reads a stale path *before* rewriting it is
outside `Safe` (here: `include x.txt` with `x.txt` stale) -/
example (cfg : Cfg) (fs0 : FS) (p : Path) (h : fs0.resolve cfg [] ['x'] = some p) :
    ¬ Safe cfg fs0 [] [Refine.Block.dir ⟨[], [], .include, [['x']]⟩ false] [p] := by
  intro hs
  have := hs.1 p (by simp [dirReads, h])
  simp at this

/-- … while writing it first makes the later read safe -/
example (cfg : Cfg) (fs0 : FS) (p : Path) (h : fs0.resolve cfg [] ['x'] = some p) (hx : isTxtppPath ['x'] = false) :
    Safe cfg fs0 [] [Refine.Block.dir ⟨[], ['-'], .temp, [['x'], ['b']]⟩ false, Refine.Block.dir ⟨[], [], .include, [['x']]⟩ true] [p] := by
  refine ⟨by simp [dirReads], ?_, trivial⟩
  intro q hq
  simp [dirReads, h] at hq
  subst hq
  simp [staleAfterDir, dirWrites, hx, h]

/-- **whole project: leftovers are irrelevant.** Two trees that differ only inside `S` (what earlier or
interrupted runs left behind: stale text, truncated files, arbitrary bytes, nothing) and hold the same
sources give the same verdict under the whole run `Txtpp::run` (input resolution, directory scans,
coordinator, every pass of every file, dependencies included), and afterwards differ at most inside the
stale set `projStale` carries along the run of the first tree — the executable side condition: at every
pass, no executed block reads a path that is still stale; a first pass owes nothing for the dependency
directive it stops at. -/
theorem whole_project_leftovers_irrelevant (cfg : Cfg) (hm : cfg.mode = .build ∨ cfg.mode = .inMemory) (a b : FS)
    (inputs : List Str) (S Sfin : List Path) (hag : Agree S a b) (hsrcs : srcPaths a = srcPaths b)
    (hres : resolveInputs cfg a inputs = resolveInputs cfg b inputs)
    (hst : projStale cfg (trSame cfg) a inputs S = some Sfin)
    (hfa : (runProject cfg a inputs).1 ≠ .outOfFuel) (hfb : (runProject cfg b inputs).1 ≠ .outOfFuel) :
    (runProject cfg a inputs).1 = (runProject cfg b inputs).1 ∧
    Agree Sfin (runProject cfg a inputs).2 (runProject cfg b inputs).2 :=
  project_runs_agree cfg hm a b inputs S Sfin hag hres (scanAll_congr a b cfg.recursive hag.1 hsrcs) hst hfa hfb

/-- … in particular, when nothing is stale at the end (`projStale … = some []`: every stale path was
regenerated by a pass that ended `ok`), the two runs leave the same bytes at *every* path -/
theorem whole_project_same_result (cfg : Cfg) (hm : cfg.mode = .build ∨ cfg.mode = .inMemory) (a b : FS)
    (inputs : List Str) (S : List Path) (hag : Agree S a b) (hsrcs : srcPaths a = srcPaths b)
    (hres : resolveInputs cfg a inputs = resolveInputs cfg b inputs)
    (hst : projStale cfg (trSame cfg) a inputs S = some [])
    (hfa : (runProject cfg a inputs).1 ≠ .outOfFuel) (hfb : (runProject cfg b inputs).1 ≠ .outOfFuel) :
    (runProject cfg a inputs).1 = (runProject cfg b inputs).1 ∧
    ∀ q, (runProject cfg a inputs).2.file? q = (runProject cfg b inputs).2.file? q := by
  have h := whole_project_leftovers_irrelevant cfg hm a b inputs S [] hag hsrcs hres hst hfa hfb
  exact ⟨h.1, fun q => h.2.2 q (by simp)⟩

/-- **whole project: building twice equals building once.** `a'` is the tree a successful run leaves;
`S` covers what that run changed. A second run from `a'` succeeds and leaves every path as it was. -/
theorem whole_project_build_twice_eq_once (cfg : Cfg) (hm : cfg.mode = .build ∨ cfg.mode = .inMemory) (a a' : FS)
    (inputs : List Str) (S : List Path) (h1 : runProject cfg a inputs = (.ok, a')) (hag : Agree S a a')
    (hsrcs : srcPaths a = srcPaths a') (hres : resolveInputs cfg a inputs = resolveInputs cfg a' inputs)
    (hst : projStale cfg (trSame cfg) a inputs S = some [])
    (hfb : (runProject cfg a' inputs).1 ≠ .outOfFuel) :
    (runProject cfg a' inputs).1 = .ok ∧ ∀ q, (runProject cfg a' inputs).2.file? q = a'.file? q := by
  have h := whole_project_same_result cfg hm a a' inputs S hag hsrcs hres hst (by rw [h1]; simp) hfb
  rw [h1] at h
  exact ⟨h.1.symm, fun q => (h.2 q).symm⟩

/-- the per-pass ingredient, first-pass aware: the old side condition `Safe` implies the new one -/
theorem first_pass_owes_nothing_after_its_dependency (cfg : Cfg) (fs0 : FS) (wd : Path) (d : Directive) (e : Bool)
    (bs : List (Refine.Block Directive)) (S Sfin : List Path) (hdep : isDepB cfg fs0 wd d = true) :
    SafeTo cfg fs0 wd true (Refine.Block.dir d e :: bs) S Sfin := Or.inl ⟨rfl, hdep⟩

end C08

import Txtpp.Lemmas.SinkFacts
import Txtpp.Lemmas.Hermetic
/-!
# Property C08 — builds are a function of the sources only (hermetic, idempotent)
-/
namespace C08
open Txt

/-- opening the output in build mode forgets whatever was there (stale text, truncated content,
arbitrary bytes, nothing): the file is empty afterwards and nothing else changed -/
theorem build_open_forgets (fs fs1 : FS) (o : Path) (h : sinkStart .build fs o = some fs1) :
    fs1.file? o = some ByteArray.empty ∧ ∀ q, q ≠ o → fs1.file? q = fs.file? q := sinkStart_build fs fs1 o h

/-- … and for two pre-states that differ only at the output path the states after opening agree
on every path -/
theorem build_open_hermetic (fs fs' fs1 fs1' : FS) (o : Path) (hagree : ∀ q, q ≠ o → fs.file? q = fs'.file? q)
    (h : sinkStart .build fs o = some fs1) (h' : sinkStart .build fs' o = some fs1') (q : Path) :
    fs1.file? q = fs1'.file? q := by
  obtain ⟨a1, a2⟩ := sinkStart_build fs fs1 o h
  obtain ⟨b1, b2⟩ := sinkStart_build fs' fs1' o h'
  by_cases hq : q = o
  · subst hq; rw [a1, b1]
  · rw [a2 q hq, b2 q hq]; exact hagree q hq

/-- a successful build pass ends with exactly the fresh output in the file -/
theorem build_done_writes (fs2 : FS) (o : Path) (new : ByteArray) :
    (sinkEnd .build fs2 o new).1 = .ok ∧ (sinkEnd .build fs2 o new).2.file? o = some new := sinkEnd_build fs2 o new

/-- the temp rule is hermetic: after a successful `write_temp_file` the target holds exactly the
new content, whatever it held before -/
theorem temp_overwrites (cfg : Cfg) (wd : Path) (src : List Char) (fs fs' : FS) (t c : List Char)
    (h : (fileWorld cfg wd src).writeTemp fs t c = some fs') :
    ∃ p, fs.resolve cfg wd t = some p ∧ fs'.file? p = some (encodeUtf8 c) := writeTemp_result cfg wd src fs fs' t c h

/-- building again over an up-to-date temp file changes nothing (idempotence of the temp rule) -/
theorem temp_idempotent (cfg : Cfg) (wd : Path) (src : List Char) (fs : FS) (t c : List Char) (p : Path)
    (hp : fs.resolve cfg wd t = some p) (hnd : fs.isDir p = false) (h : fs.file? p = some (encodeUtf8 c)) :
    (fileWorld cfg wd src).writeTemp fs t c = some fs := writeTemp_same cfg wd src fs t c p hp hnd h

/-- Project level, for every dependency graph and whatever a pass computes (`render`, local in its
dependencies): two successful runs over the same sources and inputs — started from *different*
contents of the generated files (`out0`, `out0'`: stale, truncated, arbitrary, absent), under
different schedules and thread counts — finish exactly the same set of files and leave every
output with the same value. The result depends on the sources only. -/
theorem builds_are_a_function_of_sources {C : Type} (w : Coord.World) (R : Coord.Sem C) (hR : Coord.RenderLocal w R)
    (inputs : List Coord.File) (out0 out0' : Coord.File → Coord.OutState C) (x x' : Coord.WSt C)
    (h : Coord.WReach w R inputs out0 x) (h' : Coord.WReach w R inputs out0' x')
    (hq : x.st.pool = []) (hno : ¬ Coord.Leftover x.st) (hq' : x'.st.pool = []) (hno' : ¬ Coord.Leftover x'.st) :
    (∀ f, f ∈ x.st.dm.fin ↔ f ∈ x'.st.dm.fin) ∧ ∀ f ∈ x.st.dm.fin, x.outp f = x'.outp f :=
  Coord.hermetic w R hR inputs out0 out0' x x' h h' hq hno hq' hno'

end C08

import Txtpp.Lemmas.SinkFacts
import Txtpp.Lemmas.CliFacts
import Txtpp.Lemmas.NeededRel
import Txtpp.Lemmas.ProjectRel
import Txtpp.Lemmas.Hermetic
/-!
# Property C09 — `--needed` equals a normal build and rewrites nothing that is unchanged
-/
namespace C09
open Txt

/-- an output whose content is already correct is not written: the file system (and its touch set)
is returned unchanged -/
theorem needed_no_touch (fs2 : FS) (o : Path) (new : ByteArray) (hnd : fs2.isDir o = false)
    (h : fs2.file? o = some new) : sinkEnd .inMemory fs2 o new = (.ok, fs2) := sinkEnd_needed_same fs2 o new hnd h

/-- a stale or missing output is brought up to date -/
theorem needed_updates_stale (fs2 : FS) (o : Path) (new : ByteArray) (hnd : fs2.isDir o = false)
    (h : fs2.file? o ≠ some new) : sinkEnd .inMemory fs2 o new = (.ok, fs2.write o new) :=
  sinkEnd_needed_stale fs2 o new hnd h

/-- same verdict and same bytes at every path as a normal build's `done` -/
theorem needed_eq_build (fs2 : FS) (o : Path) (new : ByteArray) (hnd : fs2.isDir o = false) (q : Path) :
    (sinkEnd .inMemory fs2 o new).1 = (sinkEnd .build fs2 o new).1 ∧
    (sinkEnd .inMemory fs2 o new).2.file? q = (sinkEnd .build fs2 o new).2.file? q :=
  sinkEnd_needed_eq_build fs2 o new hnd q

/-- opening the output in `--needed` mode touches nothing -/
theorem needed_open (fs : FS) (o : Path) : sinkStart .inMemory fs o = some fs := rfl

/-- no mode rewrites a temp file whose content is already correct -/
theorem temp_no_touch (cfg : Cfg) (wd : Path) (src : List Char) (fs : FS) (t c : List Char) (p : Path)
    (hp : fs.resolve cfg wd t = some p) (hnd : fs.isDir p = false) (h : fs.file? p = some (encodeUtf8 c)) :
    (fileWorld cfg wd src).writeTemp fs t c = some fs := writeTemp_same cfg wd src fs t c p hp hnd h

/-- … while a stale temp file is brought up to date -/
theorem temp_updates_stale (cfg : Cfg) (wd : Path) (src : List Char) (fs fs' : FS) (t c : List Char)
    (h : (fileWorld cfg wd src).writeTemp fs t c = some fs') :
    ∃ p, fs.resolve cfg wd t = some p ∧ fs'.file? p = some (encodeUtf8 c) := writeTemp_result cfg wd src fs fs' t c h

/-- Project level: what a pass computes (`render`) does not depend on the mode, only the way the
result reaches the disk does; so a successful needed-build and a successful normal build — from
whatever was on disk, under any schedules — finish the same files with the same contents. -/
theorem needed_run_eq_build_run {C : Type} (w : Coord.World) (R : Coord.Sem C) (hR : Coord.RenderLocal w R)
    (inputs : List Coord.File) (out0 out0' : Coord.File → Coord.OutState C) (x x' : Coord.WSt C)
    (h : Coord.WReach w R inputs out0 x) (h' : Coord.WReach w R inputs out0' x')
    (hq : x.st.pool = []) (hno : ¬ Coord.Leftover x.st) (hq' : x'.st.pool = []) (hno' : ¬ Coord.Leftover x'.st) :
    (∀ f, f ∈ x.st.dm.fin ↔ f ∈ x'.st.dm.fin) ∧ ∀ f ∈ x.st.dm.fin, x.outp f = x'.outp f :=
  Coord.hermetic w R hR inputs out0 out0' x x' h h' hq hno hq' hno'

/-- what a pass computes (verdict, output text, effect on the world) is the same function in normal
build and only-if-needed mode; only the way the output reaches the disk differs -/
theorem pass_computation_mode_independent {W : Type} (Wd : World W) (le : List Char) (first trailing : Bool) (w : W)
    (lines : List (List Char)) (readOk : Bool) :
    ppPass Wd .inMemory le first trailing w lines readOk = ppPass Wd .build le first trailing w lines readOk :=
  ppPass_needed Wd le first trailing w lines readOk

/-- **Only-if-needed equals build, one source.** From the same tree (output path not a directory,
the source does not read its own output while it is being rebuilt), a normal build pass and an
only-if-needed pass give the same verdict, and after an `ok` pass every path holds the same bytes. -/
theorem needed_pass_eq_build_pass (cfg : Cfg) (hb : cfg.mode = .build) (a : FS) (src : Path) (first : Bool)
    (content : ByteArray) (o : Path) (bs : List (Refine.Block Directive))
    (hfile : a.file? src = some content) (hout : outputPath src = some o) (hnd : a.isDir o = false)
    (hbs : srcBlocks .build (decodeLines (byteLines content.toList)).1 = some bs)
    (hsafe : Safe cfg a src.dropLast bs [o]) (hprobes : ProbesOK cfg a src.dropLast [o] bs) :
    (runPass cfg a src first).1 = (runPass cfg.toNeeded a src first).1 ∧
    ((runPass cfg a src first).1 = .ok → ∀ q, (runPass cfg a src first).2.file? q = (runPass cfg.toNeeded a src first).2.file? q) :=
  Txt.needed_pass_eq_build_pass cfg hb a src first content o bs hfile hout hnd hbs hsafe hprobes

/-- … and from two trees that agree outside a stale set `S` (histories of edits, tampering and
deletions in between): same verdict; after `ok` they agree wherever nothing stale is left -/
theorem needed_pass_vs_build_pass_from_related_trees (cfg : Cfg) (hb : cfg.mode = .build) (a b : FS) (S : List Path) (src : Path)
    (first : Bool) (hag : Agree S a b) (hsrc : src ∉ S) (hnd : ∀ o, outputPath src = some o → a.isDir o = false)
    (hsafe : ∀ content o bs, a.file? src = some content → outputPath src = some o →
      srcBlocks .build (decodeLines (byteLines content.toList)).1 = some bs →
      Safe cfg a src.dropLast bs (o :: S) ∧ ProbesOK cfg a src.dropLast (o :: S) bs) :
    (runPass cfg a src first).1 = (runPass cfg.toNeeded b src first).1 ∧
    ((runPass cfg a src first).1 = .ok → ∀ content o bs, a.file? src = some content → outputPath src = some o →
      srcBlocks .build (decodeLines (byteLines content.toList)).1 = some bs →
      Agree ((staleAfter cfg a src.dropLast bs (o :: S)).filter (· != o))
        (runPass cfg a src first).2 (runPass cfg.toNeeded b src first).2) :=
  needed_pass_rel cfg hb a b S src first hag hsrc hnd hsafe

/-- the side condition is executable (`srcSafeB`, evaluated by the model driver on every source of the
generated trees; counts in the evidence of C08): where it answers `true`, only-if-needed equals build -/
theorem needed_pass_eq_build_pass_where_checked (cfg : Cfg) (hb : cfg.mode = .build) (a : FS) (src : Path) (first : Bool)
    (hs : srcSafeB cfg a src = some true) :
    (runPass cfg a src first).1 = (runPass cfg.toNeeded a src first).1 ∧
    ((runPass cfg a src first).1 = .ok → ∀ q, (runPass cfg a src first).2.file? q = (runPass cfg.toNeeded a src first).2.file? q) :=
  needed_eq_build_where_checked cfg hb a src first hs

/-- entry layer: without a sub-command, `-N` selects the only-if-needed mode and nothing else changes:
inputs, `-r`, `-j`, `-n` and `-s` are applied exactly as for a normal build -/
theorem cli_needed_flag (p : CliParsed) (h : p.sub = none) :
    p.config.mode = (if p.needed then .inMemory else .build) ∧
    ({ p with needed := true } : CliParsed).config = { ({ p with needed := false } : CliParsed).config with mode := .inMemory } := by
  refine ⟨(build_mode p h).1, ?_⟩
  simp [CliParsed.config, h, CliFlags.applyTo, CliBuildFlags.applyTo]

/-- **whole project: `--needed` succeeds exactly when a normal build does, and gives the same files.**
Both whole runs (`Txtpp::run`: input resolution, scans, coordinator, all passes, dependencies included)
start from the same tree; `projStale` is the executable side condition evaluated along the build run
(no executed block reads a path that is stale at that moment - e.g. the own output, which the build
has truncated and the only-if-needed run has not). The verdicts are equal, and the trees agree outside
the final stale set. -/
theorem needed_project_vs_build_project (cfg : Cfg) (hb : cfg.mode = .build) (fs : FS) (inputs : List Str) (Sfin : List Path)
    (hst : projStale cfg (trNeeded cfg) fs inputs [] = some Sfin) :
    (runProject cfg fs inputs).1 = (runProject cfg.toNeeded fs inputs).1 ∧
    Agree Sfin (runProject cfg fs inputs).2 (runProject cfg.toNeeded fs inputs).2 :=
  Txt.needed_project_vs_build_project cfg hb fs inputs Sfin hst

/-- … with nothing stale at the end (every successful run where the side condition holds): the same
bytes at every path -/
theorem needed_project_eq_build_project (cfg : Cfg) (hb : cfg.mode = .build) (fs : FS) (inputs : List Str)
    (hst : projStale cfg (trNeeded cfg) fs inputs [] = some []) :
    (runProject cfg fs inputs).1 = (runProject cfg.toNeeded fs inputs).1 ∧
    ∀ q, (runProject cfg fs inputs).2.file? q = (runProject cfg.toNeeded fs inputs).2.file? q := by
  have h := Txt.needed_project_vs_build_project cfg hb fs inputs [] hst
  exact ⟨h.1, fun q => h.2.2 q (by simp)⟩

end C09

/-! Line-protocol codec: fields are hex-encoded UTF-8; the empty string is `_`. -/
namespace Driver

def hexVal (c : Char) : Option UInt8 :=
  if '0' ≤ c ∧ c ≤ '9' then some (c.toNat - '0'.toNat).toUInt8
  else if 'a' ≤ c ∧ c ≤ 'f' then some (c.toNat - 'a'.toNat + 10).toUInt8
  else none

def unhexBytes (s : String) : Option ByteArray :=
  if s = "_" then some ByteArray.empty else
  let rec go : List Char → ByteArray → Option ByteArray
    | [], acc => some acc
    | [_], _ => none
    | a :: b :: rest, acc =>
      match hexVal a, hexVal b with
      | some x, some y => go rest (acc.push (x * 16 + y))
      | _, _ => none
  go s.toList ByteArray.empty

/-- decode a hex field to text; `none` if not hex or not valid UTF-8 -/
def unhex (s : String) : Option (List Char) :=
  match unhexBytes s with
  | some b => (String.fromUTF8? b).map String.toList
  | none => none

def hexDigit (n : UInt8) : Char :=
  if n < 10 then Char.ofNat ('0'.toNat + n.toNat) else Char.ofNat ('a'.toNat + n.toNat - 10)

def hexBytes (b : ByteArray) : String :=
  if b.size = 0 then "_" else
  String.ofList (b.toList.flatMap (fun x => [hexDigit (x / 16), hexDigit (x % 16)]))

def hex (s : List Char) : String := hexBytes (String.ofList s).toUTF8

end Driver

import Driver.Codec
import Txtpp.Model.Text
import Txtpp.Model.Tag
import Txtpp.Model.Project
import Txtpp.Model.Safe
import Txtpp.Model.ProjSafe
import Txtpp.Model.ProjectTrace
import Txtpp.Model.Cli
import Txtpp.Model.Shell
import Txtpp.Model.CoordSim
open Driver Txt

def tyName : DType → String
  | .empty => "empty" | .include => "include" | .after => "after" | .run => "run"
  | .tag => "tag" | .temp => "temp" | .write => "write"

def tyOfName : String → Option DType
  | "empty" => some .empty | "include" => some .include | "after" => some .after | "run" => some .run
  | "tag" => some .tag | "temp" => some .temp | "write" => some .write | _ => none

def sortStrs (l : List String) : List String := l.mergeSort (fun a b => decide (a ≤ b))

def tagKeys (t : TagState) : String :=
  let ks := (t.stored.map (fun kv => hex kv.1)) ++ (match t.listening with | some l => [hex l] | none => [])
  if ks.isEmpty then "-" else "+".intercalate (sortStrs ks)

/-- setup ops: `c<hex>` create, `s<hex>` try_store -/
def tagSetup (ops : List String) (t : TagState) (acc : List String) : Option (TagState × List String) :=
  match ops with
  | [] => some (t, acc.reverse)
  | op :: rest =>
    match op.toList with
    | 'c' :: h =>
      (match unhex (String.ofList h) with
       | some name => (match t.create name with
          | some t' => tagSetup rest t' ("ok" :: acc)
          | none => tagSetup rest t ("err" :: acc))
       | none => none)
    | 's' :: h =>
      (match unhex (String.ofList h) with
       | some c => (match t.tryStore c with
          | some t' => tagSetup rest t' ("ok" :: acc)
          | none => tagSetup rest t ("err" :: acc))
       | none => none)
    | _ => none

def tagLines (le : Str) (seq : Bool) (t0 : TagState) : List Str → TagState → List String → List String
  | [], _, acc => acc.reverse
  | l :: ls, t, acc =>
    let r := (if seq then t else t0).injectLE le l
    tagLines le seq t0 ls r.2 (s!"{hex r.1}/{tagKeys r.2}" :: acc)

def splitList (s : String) : List String := if s = "-" then [] else s.splitOn ","

def parsePath (s : Str) : Path := if s.isEmpty then [] else splitOn '/' s

def modeOf : String → Option Mode
  | "build" => some .build | "needed" => some .inMemory | "clean" => some .clean | "verify" => some .verify | _ => none

def parseTree (entries : List String) : Option FS :=
  entries.foldlM (fun (fs : FS) (e : String) =>
    match e.splitOn ":" with
    | ["d", p] => (unhex p).map (fun p => { fs with dirs := parsePath p :: fs.dirs })
    | ["f", p, c] =>
      (match unhex p, unhexBytes c with
       | some p, some c => some { fs with files := (parsePath p, c) :: fs.files }
       | _, _ => none)
    | _ => none) ⟨[], [], [], []⟩

def parseCmds (entries : List String) : Option (List (Str × List (Str × Str))) :=
  entries.mapM (fun (e : String) =>
    match e.splitOn "=" with
    | [t, acts] =>
      (match unhex t with
       | none => none
       | some t =>
         let as := if acts = "-" then [] else acts.splitOn ";"
         (as.mapM (fun (a : String) => match a.splitOn ":" with
            | [k, v] => (unhex v).map (fun v => (k.toList, v))
            | _ => none)).map (fun as => (t, as)))
    | _ => none)

def showFS (fs : FS) : String :=
  let fl := sortStrs (fs.files.map (fun kv => s!"{hex (joinPath kv.1)}:{hexBytes kv.2}"))
  let tl := sortStrs (fs.touched.map (fun p => hex (joinPath p)))
  let ll := sortStrs (fs.log.map hex)
  let j (l : List String) := if l.isEmpty then "-" else ",".intercalate l
  s!"F={j fl} T={j tl} L={j ll}"

def showVerdict : Verdict → String
  | .ok => "ok" | .err => "err" | .circular => "circular" | .panic => "panic" | .outOfFuel => "out-of-fuel"

def showTask : Coord.Task → String
  | .pp f first => s!"{f}{if first then "a" else "b"}"

def showTasks (l : List Coord.Task) : String := if l.isEmpty then "-" else ".".intercalate (l.map showTask)

def parseNats (s : String) : Option (List Nat) :=
  if s = "-" then some [] else (s.splitOn ".").mapM String.toNat?

/-- world: per file `deps:failFirst:failFinal`, deps dot-separated -/
def parseWorld (entries : List String) : Option (List (List Nat × Bool × Bool)) :=
  entries.mapM (fun (e : String) =>
    match e.splitOn ":" with
    | [d, a, b] => (parseNats d).map (fun d => (d, a == "t", b == "t"))
    | _ => none)

def parseTask (s : String) : Option Coord.Task :=
  match s.toList.reverse with
  | 'a' :: r => (String.ofList r.reverse).toNat?.map (fun f => Coord.Task.pp f true)
  | 'b' :: r => (String.ofList r.reverse).toNat?.map (fun f => Coord.Task.pp f false)
  | _ => none

def parseOrders (s : String) : Option (List (List Coord.Task)) :=
  if s = "-" then some [] else
  (s.splitOn "|").mapM (fun (st : String) => if st = "-" then some [] else (st.splitOn ".").mapM parseTask)

def showUTask : Coord.UTask → String
  | .scan d => s!"{d}s"
  | .pp t => showTask t

def showUTasks (l : List Coord.UTask) : String := if l.isEmpty then "-" else ".".intercalate (l.map showUTask)

/-- dir world: per directory `files:subs:fail` -/
def parseDirWorld (entries : List String) : Option (List (List Nat × List Nat × Bool)) :=
  entries.mapM (fun (e : String) =>
    match e.splitOn ":" with
    | [f, d, a] => match parseNats f, parseNats d with
      | some f, some d => some (f, d, a == "t")
      | _, _ => none
    | _ => none)

def showSimVerdict : Coord.SimVerdict → String
  | .ok => "ok" | .err => "err" | .circular => "circular" | .panic => "panic" | .outOfFuel => "out-of-fuel"

/-- does some txtpp source of the tree contain a `run` block whose command is not in the vocabulary? Then the
    generator left its domain (the model cannot know what `sh` does with such a command) and the case is
    answered `vocab`, which the harness counts and skips. -/
def offVocabulary (cfg : Cfg) (fs : FS) : Bool :=
  fs.files.any (fun (p, content) =>
    (outputPath p).isSome &&
    (match srcBlocks cfg.mode (decodeLines (byteLines content.toList)).1 with
     | none => false
     | some bs => bs.any (fun b => match b with
        | .dir d _ => d.ty == .run && (cfg.cmds.find? (fun kv => kv.1 == joinWith [' '] d.args)).isNone
        | .text _ => false)))

def handle (line : String) : String :=
  match line.trimAscii.toString.splitOn " " with
  | ["detect", l] =>
    match unhex l with
    | some l =>
      (match detectFrom l with
       | none => "N"
       | some d => s!"D {hex d.ws} {hex d.pre} {tyName d.ty} {" ".intercalate (d.args.map hex)}")
    | none => "bad-field"
  | ["addline", ws, pre, ty, l] =>
    match unhex ws, unhex pre, tyOfName ty, unhex l with
    | some ws, some pre, some ty, some l =>
      (match addLine ⟨ws, pre, ty, []⟩ l with
       | none => "N"
       | some d => s!"A {" ".intercalate (d.args.map hex)}")
    | _, _, _, _ => "bad-field"
  | ["tags", le, mode, setup, lines] =>
    match unhex le, (splitList lines).mapM unhex with
    | some le, some ls =>
      (match tagSetup (splitList setup) TagState.empty [] with
       | some (t, rs) =>
         let a := if rs.isEmpty then "-" else ",".intercalate rs
         let b := tagLines le (mode == "seq") t ls t []
         s!"{a} {tagKeys t} {if b.isEmpty then "-" else ",".intercalate b}"
       | none => "bad-field")
    | _, _ => "bad-field"
  | ["project", mode, tr, rec, base, inputs, tree, cmds] =>
    match modeOf mode, unhex base, (splitList inputs).mapM unhex, parseTree (splitList tree), parseCmds (splitList cmds) with
    | some mode, some base, some inputs, some fs, some cmds =>
      let cfg : Cfg := { mode := mode, trailing := tr == "t", recursive := rec == "t", baseAbs := base, cmds := cmds }
      let (v, fs') := runProject cfg fs inputs
      if offVocabulary cfg fs then s!"vocab {showFS fs'}" else
      s!"{showVerdict v} {showFS fs'}"
    | _, _, _, _, _ => "bad-field"
  | ["coord", n, inputs, world, choices, orders] =>
    match n.toNat?, parseNats inputs, parseWorld (splitList world), parseNats choices, parseOrders orders with
    | some n, some inputs, some wl, some choices, some orders =>
      let w : Coord.World := {
        deps := fun f => (wl.getD f ([], false, false)).1,
        failFirst := fun f => (wl.getD f ([], false, false)).2.1,
        failFinal := fun f => (wl.getD f ([], false, false)).2.2 }
      let (v, steps) := Coord.simulate w n wl.length inputs choices orders
      let ss := steps.map (fun st => s!"{showTasks st.enabled}>{st.choice}>{showTasks st.spawned}@{st.done}/{st.total}")
      s!"{showSimVerdict v} {if ss.isEmpty then "-" else "|".intercalate ss}"
    | _, _, _, _, _ => "bad-field"
  | ["pass", mode, first, tr, base, src, tree, cmds] =>
    match modeOf mode, unhex base, unhex src, parseTree (splitList tree), parseCmds (splitList cmds) with
    | some mode, some base, some src, some fs, some cmds =>
      let cfg : Cfg := { mode := mode, trailing := tr == "t", recursive := false, baseAbs := base, cmds := cmds }
      let (oc, fs') := runPass cfg fs (parsePath src) (first == "t")
      let o := match oc with
        | .ok => "ok"
        | .err => "err"
        | .hasDeps deps => "deps:" ++ ",".intercalate (deps.map hex)
      if offVocabulary cfg fs then s!"vocab {showFS fs'}" else
      s!"{o} {showFS fs'}"
    | _, _, _, _, _ => "bad-field"
  | ["cli", sub, needed, tq, tv, tr, tj, tn, tin, sq, sv, sr, sj, sn, sin] =>
    -- the flag mapping of src/main.rs on the parsed command line (top-level part, sub-command part)
    match tj.toNat?, sj.toNat?, (splitList tin).mapM unhex, (splitList sin).mapM unhex with
    | some tj, some sj, some tin, some sin =>
      let b (x : String) : Bool := x == "t"
      let topF : CliFlags := { quiet := b tq, verbose := b tv, recursive := b tr, threads := tj, inputs := if tin.isEmpty then [['.']] else tin }
      let topB : CliBuildFlags := { shell := [], noTrailingNewline := b tn }
      let subF : CliFlags := { quiet := b sq, verbose := b sv, recursive := b sr, threads := sj, inputs := if sin.isEmpty then [['.']] else sin }
      let subB : CliBuildFlags := { shell := [], noTrailingNewline := b sn }
      let p : Option CliParsed :=
        if sub == "none" then some { sub := none, flags := topF, build := topB, needed := b needed }
        else if sub == "clean" then some { sub := some (.clean subF), flags := topF, build := topB, needed := b needed }
        else if sub == "verify" then some { sub := some (.verify subF subB), flags := topF, build := topB, needed := b needed }
        else none
      match p with
      | none => "bad-field"
      | some p =>
        let c := p.config
        let m := match c.mode with | .build => "build" | .inMemory => "needed" | .clean => "clean" | .verify => "verify"
        let v := match c.verbosity with | .quiet => "q" | .normal => "n" | .verbose => "v"
        let t (x : Bool) := if x then "t" else "f"
        s!"{m} {t c.trailingNewline} {t c.recursive} {c.numThreads} {v} {",".intercalate (c.inputs.map hex)}"
    | _, _, _, _ => "bad-field"
  | ["guard", env] =>
    -- the guard at the top of `main` on the value of TXTPP_FILE: `unset`, `notunicode`, or the hex of its text (`_` = empty)
    let e : Option EnvVar :=
      if env == "unset" then some .unset else if env == "notunicode" then some .notUnicode
      else (unhex env).map .val
    match e with
    | none => "bad-field"
    | some e => (match entry e {} with | none => "refuse" | some _ => "start")
  | ["shell", sh, cmd] =>
    -- the argument vector after the executable (`Shell::new` + `Shell::run`)
    match unhex sh, unhex cmd with
    | some sh, some cmd => ",".intercalate ((shellArgv sh cmd).tail.map hex)
    | _, _ => "bad-field"
  | ["safe", mode, base, tree, cmds] =>
    -- on how many txtpp sources of the tree the side condition of the pass-level theorems (C06/C08/C09) holds
    match modeOf mode, unhex base, parseTree (splitList tree), parseCmds (splitList cmds) with
    | some mode, some base, some fs, some cmds =>
      let cfg : Cfg := { mode := mode, trailing := true, recursive := false, baseAbs := base, cmds := cmds }
      let srcs := (fs.files.map (·.1)).filter (fun p => (outputPath p).isSome)
      let rs := srcs.map (fun p => (p, srcSafeB cfg fs p))
      let ok := (rs.filter (fun r => r.2 == some true)).length
      let bad := rs.filter (fun r => r.2 == some false)
      let skip := (rs.filter (fun r => r.2 == none)).length
      let badNames := if bad.isEmpty then "-" else ",".intercalate (bad.map (fun r => hex (joinPath r.1)))
      s!"safe={ok} unsafe={bad.length} skip={skip} {badNames}"
    | _, _, _, _ => "bad-field"
  | ["projsafe", tr, rec, base, inputs, tree, cmds] =>
    -- the executable side conditions of the whole-project theorems (C08 build twice = once, C09 needed = build),
    -- evaluated along the model's reference run, and the conclusions of those theorems (which must hold whenever
    -- the side condition does)
    match unhex base, (splitList inputs).mapM unhex, parseTree (splitList tree), parseCmds (splitList cmds) with
    | some base, some inputs, some fs, some cmds =>
      let cfg : Cfg := { mode := .build, trailing := tr == "t", recursive := rec == "t", baseAbs := base, cmds := cmds }
      let (v1, a1) := runProject cfg fs inputs
      let sameFiles (x y : FS) : Bool := ((x.files ++ y.files).map (·.1)).all (fun q => x.file? q == y.file? q)
      let showSt (o : Option (List Path)) : String := match o with
        | none => "unsafe" | some [] => "clean" | some _ => "stale"
      -- C09
      let stN := projStale cfg (trNeeded cfg) fs inputs []
      let (vN, aN) := runProject { cfg with mode := .inMemory } fs inputs
      let nconcl := match stN with
        | none => true
        | some [] => v1 == vN && sameFiles a1 aN
        | some _ => v1 == vN
      -- C08
      let S := (((fs.files ++ a1.files).map (·.1)).filter (fun q => fs.file? q != a1.file? q)).eraseDups
      let side := srcPaths fs == srcPaths a1 && resolveInputs cfg fs inputs == resolveInputs cfg a1 inputs && fs.dirs == a1.dirs
      let (v2, a2) := runProject cfg a1 inputs
      let stT := if v1 == Verdict.ok && side && v2 != Verdict.outOfFuel then projStale cfg (trSame cfg) fs inputs S else none
      let tconcl := match stT with
        | some [] => v2 == Verdict.ok && sameFiles a2 a1
        | _ => true
      -- C06: verify ok => needed ok with the same files; and (with the C09 condition) build ok with the same files
      let (vV, aV) := runProject { cfg with mode := .verify } fs inputs
      let stV := projStale { cfg with mode := .inMemory } trVerify fs inputs []
      let vconcl := if vV == Verdict.ok && stV.isSome then
          (vN == Verdict.ok && sameFiles aN aV) && (stN != some [] || (v1 == Verdict.ok && sameFiles a1 aV))
        else true
      let srcs := (fs.files.map (·.1)).filter (fun p => (outputPath p).isSome)
      let deps := srcs.any (fun p => match (runPass cfg fs p true).1 with | .hasDeps _ => true | _ => false)
      s!"v={showVerdict v1} deps={deps} needed={showSt stN} nconcl={nconcl} twice={if v1 == Verdict.ok then showSt stT else "n/a"} tconcl={tconcl} verify={if vV == Verdict.ok then (if stV.isSome && stN == some [] then "clean" else if stV.isSome then "needed-only" else "unsafe") else "n/a"} vconcl={vconcl}"
    | _, _, _, _ => "bad-field"
  | ["trace", mode, tr, rec, base, inputs, tree, cmds] =>
    -- the deliveries of the reference run, in order: (file, first / final pass); the failing delivery is not listed
    match modeOf mode, unhex base, (splitList inputs).mapM unhex, parseTree (splitList tree), parseCmds (splitList cmds) with
    | some mode, some base, some inputs, some fs, some cmds =>
      let cfg : Cfg := { mode := mode, trailing := tr == "t", recursive := rec == "t", baseAbs := base, cmds := cmds }
      let (v, _) := runProject cfg fs inputs
      if offVocabulary cfg fs then "vocab -" else
      match runProjectT cfg fs inputs with
      | none => s!"{showVerdict v} -"
      | some (_, s, hist) =>
        let items := hist.map (fun (tr : Coord.Task × Coord.Res) => match tr.1 with
          | .pp f first => hex (joinPath (s.names.getD f [])) ++ ":" ++ (if first then "1" else "2"))
        s!"{showVerdict v} {if items.isEmpty then "-" else ",".intercalate items}"
    | _, _, _, _, _ => "bad-field"
  | ["coordscan", files, dirs, world, dirworld, choices] =>
    match parseNats files, parseNats dirs, parseWorld (splitList world), parseDirWorld (splitList dirworld), parseNats choices with
    | some files, some dirs, some wl, some dl, some choices =>
      let w : Coord.ScanWorld := {
        deps := fun f => (wl.getD f ([], false, false)).1,
        failFirst := fun f => (wl.getD f ([], false, false)).2.1,
        failFinal := fun f => (wl.getD f ([], false, false)).2.2,
        dirFiles := fun d => (dl.getD d ([], [], false)).1,
        dirSubs := fun d => (dl.getD d ([], [], false)).2.1,
        scanFails := fun d => (dl.getD d ([], [], false)).2.2 }
      let (v, steps) := Coord.ssimulate w wl.length dl.length files dirs choices
      let ss := steps.map (fun st => s!"{showUTasks st.enabled}>{st.choice}>{showUTasks st.spawned}@{st.done}/{st.total}")
      s!"{showSimVerdict v} {if ss.isEmpty then "-" else "|".intercalate ss}"
    | _, _, _, _, _ => "bad-field"
  | _ => "bad-op"

partial def loop (h : IO.FS.Stream) (out : IO.FS.Stream) : IO Unit := do
  let line ← h.getLine
  if line.isEmpty then return ()
  out.putStrLn (handle line)
  loop h out

def main : IO Unit := do
  let out ← IO.getStdout
  loop (← IO.getStdin) out
  out.flush

import Driver.Codec
import Txtpp.Model.Text
import Txtpp.Model.Tag
open Driver Txt

def tyName : DType → String
  | .empty => "empty" | .include => "include" | .after => "after" | .run => "run"
  | .tag => "tag" | .temp => "temp" | .write => "write"

def tyOfName : String → Option DType
  | "empty" => some .empty | "include" => some .include | "after" => some .after | "run" => some .run
  | "tag" => some .tag | "temp" => some .temp | "write" => some .write | _ => none

def handle (line : String) : String :=
  match line.trimAscii.toString.splitOn " " with
  | ["detect", l] =>
    match unhex l with
    | some l =>
      (match detectFrom l with
       | none => "N"
       | some d => s!"D {hex d.ws} {hex d.pre} {tyName d.ty} {" ".intercalate (d.args.map hex)}")
    | none => "bad-field"
  | ["addline", ws, pre, ty, l] =>
    match unhex ws, unhex pre, tyOfName ty, unhex l with
    | some ws, some pre, some ty, some l =>
      (match addLine ⟨ws, pre, ty, []⟩ l with
       | none => "N"
       | some d => s!"A {" ".intercalate (d.args.map hex)}")
    | _, _, _, _ => "bad-field"
  | _ => "bad-op"

partial def loop (h : IO.FS.Stream) (out : IO.FS.Stream) : IO Unit := do
  let line ← h.getLine
  if line.isEmpty then return ()
  out.putStrLn (handle line)
  loop h out

def main : IO Unit := do
  let out ← IO.getStdout
  loop (← IO.getStdin) out
  out.flush

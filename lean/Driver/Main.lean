import Txtpp.Model.Text
def main : IO Unit := IO.println "ok"

#!/usr/bin/env python3
"""Regenerate /verif/MANIFEST.json from tools/props.py (so the two never drift)."""
import json, os, sys
ROOT = os.path.dirname(os.path.dirname(os.path.abspath(__file__)))
sys.path.insert(0, os.path.join(ROOT, "tools"))
from props import PROPS, PENDING

all_ids = [json.loads(l)["id"] for l in open(os.path.join(ROOT, "properties.jsonl"))]
checks = []
for pid in all_ids:
    if pid not in PROPS:
        continue
    s = PROPS[pid]
    checks.append({
        "property_id": pid,
        "quick_cmd": "./check %s --tier quick" % pid,
        "thorough_cmd": "./check %s --tier thorough" % pid,
        "evidence_file": "/verif/evidence/%s.json" % pid,
        "replay_cmd_template": "./check %s --replay {path}" % pid,
        "engine": "lean4-proof+correspondence",
        "level_claimed": {"category": "proof", "text": s["level_text"], "design_ref": s["design_ref"]},
        "level_note": s["level_note"],
        "technique": s["technique"],
    })
na = [{"property_id": pid, "reason": PENDING.get(pid, "not yet claimed in this revision")} for pid in all_ids if pid not in PROPS]
m = {
    "version": 1,
    "setup_cmd": "./check --setup",
    "hooks": {
        "guard": "cargo feature `verif` (off by default)",
        "enable": "the harness depends on /repo by path with features=[\"verif\"], default-features=false; the CLI binary is built with `cargo build --offline --manifest-path /repo/Cargo.toml --features verif --target-dir /verif/harness/target/repo`",
        "baseline_off_cmd": "cd /repo && cargo test --workspace --no-fail-fast --offline",
        "source_commits": ["d5861d7", "7505294", "95c062a"],
        "add_only": True,
    },
    "engines": [
        {"name": "lean4-proof+correspondence", "path": "/verif/lean (theorems, model, driver) + /verif/harness (Rust correspondence harness) + /verif/check",
         "serves_properties": [c["property_id"] for c in checks],
         "kind_free_text": "machine-checked proof in Lean 4 over a hand-written executable model; the model is tied to /repo's current tree on every run by a differential correspondence check (Rust harness calling the real code in-process / the built CLI vs the compiled Lean model driver) plus direct property oracles on the implementation"},
    ],
    "checks": checks,
    "notes": "Genuine defects repaired in /repo as `fix:` commits are recorded in KNOWN_FINDINGS.txt (fixed: lines suppress nothing). See DESIGN.md.",
    "not_applicable": na,
}
json.dump(m, open(os.path.join(ROOT, "MANIFEST.json"), "w"), indent=1)
print("MANIFEST.json: %d checks, %d not claimed" % (len(checks), len(na)))

#!/usr/bin/env python3
"""Apply each seeded change under /verif/seeded/<id>/patch.diff to /repo, run the given checks (quick tier),
undo it, and record which checks raised a VIOLATION in meta.json (`detected_by`).
usage: run_seeds.py [--props C01,C15] [seed-dir-names...]"""
import json, os, subprocess, sys, time
ROOT = "/verif"
args = sys.argv[1:]
props = None
if args and args[0] == "--props":
    props = args[1].split(","); args = args[2:]
seeds = args or sorted(os.listdir(os.path.join(ROOT, "seeded")))
claimed = [c["property_id"] for c in json.load(open(os.path.join(ROOT, "MANIFEST.json")))["checks"]]
assert subprocess.run(["git", "-C", "/repo", "status", "--porcelain"], capture_output=True, text=True).stdout.strip() == "", "/repo not clean"
for s in seeds:
    d = os.path.join(ROOT, "seeded", s)
    meta = json.load(open(os.path.join(d, "meta.json")))
    todo = props or [meta["property"]]
    todo = [p for p in todo if p in claimed]
    r = subprocess.run(["git", "-C", "/repo", "apply", os.path.join(d, "patch.diff")], capture_output=True, text=True)
    if r.returncode != 0:
        print(s, "patch does not apply:", r.stderr[:200]); continue
    try:
        for p in todo:
            t = time.time()
            try:
                out = subprocess.run([os.path.join(ROOT, "check"), p, "--tier", "quick"], capture_output=True, text=True, cwd=ROOT, timeout=1500)
            except subprocess.TimeoutExpired:
                print("%s %s: TIMEOUT of the check itself" % (s, p), flush=True)
                subprocess.run("ps aux | grep -E '[t]xtpp-harness' | awk '{print $2}' | xargs -r kill", shell=True)
                continue
            viol = [l for l in out.stdout.splitlines() if l.startswith("VIOLATION")]
            det = out.returncode != 0 and bool(viol)
            kind = "none"
            if det:
                kind = "no-failing-input-found" if all("no-failing-input-found" in v for v in viol) else "failing-input"
            notes = [l for l in out.stdout.splitlines() if l.startswith("note:")][:1]
            print("%s %s: %s (%s) %.0fs %s" % (s, p, "DETECTED" if det else "missed", kind, time.time() - t, notes[0][:200] if notes else ""), flush=True)
            db = [x for x in meta.get("detected_by", []) if x["check"] != p]
            db.append({"check": p, "tier": "quick", "detected": det, "kind": kind})
            meta["detected_by"] = db
    finally:
        subprocess.run(["git", "-C", "/repo", "checkout", "--", "."])
    json.dump(meta, open(os.path.join(d, "meta.json"), "w"), indent=1)
# evidence files were rewritten by the mutated runs: restore them from the unchanged tree
print("done; re-run ./check for the touched properties to refresh evidence")

"""Per-property configuration of ./check: harness jobs, trusted base, what is modelled."""

STD_TEXT = "Rust std string primitives (find, split_once, trim_matches, starts_with, char::is_whitespace = Unicode White_Space table carried by the model)"

PROPS = {
    "C15": {
        "jobs": ["c15"],
        "cli": False,
        "trusted_base": [
            "M1/M2 in-process correspondence through the `verif` re-exports of Directive/DirectiveType (bounded-exhaustive token lines)",
        ],
        "modelled": [STD_TEXT, "byte-offset slicing of add_line is modelled on chars + UTF-8 length (no-panic side: C18)"],
        "level_text": "Lean theorems: the executable models of detect_from/add_line accept exactly the lines the two sentences of the property describe (both directions, all lines, all directives), parses and continuation arguments are unique. The models are tied to the code by a bounded-exhaustive in-process comparison on every run; any divergence is a line on which the code departs from the grammar.",
        "design_ref": "5 C15, 4.1",
        "level_note": "Trusted: Lean kernel + {propext, Classical.choice, Quot.sound}; the M1/M2 correspondence is exhaustive only up to the token-length bound; Rust std string primitives are modelled.",
        "technique": "Lean 4 proof (iff with declarative grammar) + bounded-exhaustive differential correspondence",
        "assumptions": ["lines handed to detect_from/add_line are valid UTF-8 without line terminators (guaranteed by BufRead::lines; C18 covers the rest)"],
    },
}

# properties not (yet) claimed, with the reason shown in MANIFEST.not_applicable
PENDING = {}

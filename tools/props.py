"""Per-property configuration of ./check: harness jobs, trusted base, what is modelled."""

STD_TEXT = "Rust std string primitives (find, split_once, trim_matches, starts_with, char::is_whitespace = Unicode White_Space table carried by the model)"

PROPS = {
    "C15": {
        "jobs": ["c15", {"cmd": "c15e", "shards": 48}],
        "cli": False,
        "trusted_base": [
            "M1/M2 in-process correspondence through the `verif` re-exports of Directive/DirectiveType (bounded-exhaustive token lines)",
            "M5-grouping: the line loop on top of detect_from/add_line (which line ends a directive, which starts a new one), every (directive line, candidate line, third line) combination over small alphabets through Txtpp::run vs the Lean model",
        ],
        "modelled": [STD_TEXT, "byte-offset slicing of add_line is modelled on chars + UTF-8 length (no-panic side: C18)"],
        "level_text": "Lean theorems: the executable models of detect_from/add_line accept exactly the lines the two sentences of the property describe (both directions, all lines, all directives), parses and continuation arguments are unique. The models are tied to the code by a bounded-exhaustive in-process comparison on every run; any divergence is a line on which the code departs from the grammar.",
        "design_ref": "5 C15, 4.1",
        "level_note": "Trusted: Lean kernel + {propext, Classical.choice, Quot.sound}; the M1/M2 correspondence is exhaustive only up to the token-length bound; Rust std string primitives are modelled.",
        "technique": "Lean 4 proof (iff with declarative grammar) + bounded-exhaustive differential correspondence",
        "assumptions": ["lines handed to detect_from/add_line are valid UTF-8 without line terminators (guaranteed by BufRead::lines; C18 covers the rest)"],
    },
}

PROPS["C14"] = {
    "jobs": ["c14", {"cmd": "c14e", "shards": 48}],
    "cli": False,
    "trusted_base": [
        "M3 in-process correspondence through the `verif` re-export of TagState (bounded-exhaustive name sets x lines, each case 3x with fresh hash seeds)",
    ],
    "modelled": [STD_TEXT, "std HashMap is modelled as an association list in arbitrary order (theorem inject_order_irrelevant)", "str::lines / replace_line_ending (model replaceLE)"],
    "level_text": 'Lean theorems over the tag-store model: create fails exactly in the documented cases; every reachable store is prefix-free; under that invariant substitution is independent of map iteration order (determinism); inject_spec: the result is the line with exactly the greedily selected occurrences replaced by their line-ending-normalised values, every selected occurrence is the FIRST occurrence of a stored name, selected occurrences are increasing and non-overlapping, every unselected occurrence starts inside an earlier selected one, exactly the selected names are deleted, values are not scanned again; a waiting tag captures the next directive output (which is then not written); reaching the end of the file with a tag left is an error; the name a tag directive creates is its whole first argument, inner blanks included (tag_name_is_the_whole_argument). The model is compared with TagState in process on every name set / line up to the bound, 3 repetitions each with fresh hash seeds.',
    "design_ref": "5 C14, 4.4",
    "level_note": 'Trusted: Lean kernel + {propext, Quot.sound}; std HashMap is modelled as an association list in arbitrary order.',
    "technique": "Lean 4 proof (invariant + permutation-invariance) + bounded-exhaustive differential correspondence",
    "assumptions": ["lines given to inject_tags do not end in a newline (asserted by the code; established by BufRead::lines)"],
}

WHOLE_FILE_MODELLED = [STD_TEXT, "BufRead::lines / str::lines / UTF-8 decoding", "std::fs and the OS file system (model FS: finite tree of regular files and directories, OS-style path walk)",
                       "`sh` (commands come from a fixed vocabulary whose stdout the harness knows: printf literal, cat, echo marker >> $VERIF_LOG, printf %s $TXTPP_FILE, true, exit n)",
                       "threadpool/mpsc scheduling (the whole-run model is sequential; C02 proves schedule independence over the coordinator model)"]

PROPS["C01"] = {
    "jobs": [{"cmd": "c01", "shards": 32, "shards_thorough": 48}, {"cmd": "c01p", "shards": 32, "shards_thorough": 48}],
    "cli": False,
    "trusted_base": ["M5 correspondence: Txtpp::run (library, in process, real sh) vs Lean runProject on generated projects; verdict + every byte of the tree on success", "M5p correspondence: single passes through the re-exported preprocess vs Lean runPass (outcome kind, dependency list of a first pass, bytes, markers, touch set) in all four modes"],
    "modelled": WHOLE_FILE_MODELLED,
    "level_text": "Lean theorem machine_eq_spec / pp_refines_spec: for every directive semantics, every source and every trailing option the streaming machine of Pp::run_internal (current directive, tail line, pending-newline flag) equals the README-shaped specification parse -> eval -> render, including when it fails. The concrete machine (all seven directives, tags, temp files, first/second pass, four modes) is compared with the real library on generated multi-file projects on every run; inside the documented domain a difference is an output that is not what the semantics prescribe.",
    "design_ref": "5 C01, 4.2, 4.3",
    "level_note": "Trusted: Lean kernel + {propext, Quot.sound}; the correspondence samples the domain of DESIGN 4.3; sh, the OS and Rust std are modelled, not verified.",
    "technique": "Lean 4 proof (refinement: streaming machine = parse/eval/render spec) + generated differential correspondence",
    "assumptions": ["inputs inside the documented domain of DESIGN.md 4.3 (UTF-8, CR only before LF, commands from the vocabulary, generated paths distinct from sources)"],
}

PROPS["C12"] = {
    "jobs": [{"cmd": "c12", "shards": 32, "shards_thorough": 48}],
    "cli": False,
    "trusted_base": ["direct oracle: byte scan of every generated file of the real run", "M5 correspondence (as C01)"],
    "modelled": WHOLE_FILE_MODELLED,
    "level_text": "Lean theorems: for every source whose lines are terminator-free and every world in which included files and command output have CR only before LF, in every mode and both passes, the whole output of a successful pass consists of terminator-free pieces joined by the source's line ending (output_one_ending, proved over the streaming machine), and so does every temp file content; stored tag values keep that discipline; the ending is sniffed from the first line only. Every generated file of every generated project is byte-scanned on the real implementation on each run, and the whole run is compared with the model.",
    "design_ref": "5 C12",
    "level_note": 'That BufRead::lines (modelled at byte level: split at byte 10, strip one trailing 13, decode UTF-8) delivers terminator-free lines for a CR-only-before-LF source is proved (source_lines_terminator_free) and composed with the pass theorem in output_one_ending_of_bytes. Domain: CR occurs only immediately before LF (in sources, included files and command output). Also proved over the file-system model: a run keeps a CR-clean tree CR-clean (run_keeps_tree_cr_clean), and the bytes a build pass writes use one ending (build_pass_output_bytes_one_ending), with included files read from the modelled tree and only the output of commands assumed CR-clean.',
    "technique": "Lean 4 proof (line-ending conformance of each producer) + byte-scan oracle + differential correspondence",
    "assumptions": ["CR occurs only immediately before LF in sources, included files and command output"],
}

PROPS["C13"] = {
    "jobs": [{"cmd": "c13", "shards": 32, "shards_thorough": 48}, {"cmd": "cli13", "shards": 8}],
    "cli": True,
    "trusted_base": ["direct oracle: pairwise comparison of the real outputs with the option on and off", "M5 correspondence (as C01)"],
    "modelled": WHOLE_FILE_MODELLED,
    "level_text": "Lean theorem (for every directive semantics, every source, every world): the runs with the option on and off fail together, end in the same state (tags, temp files, executed commands) and their outputs are equal or differ by exactly one line ending at the very end; lifted to the txtpp pass in all modes and both passes. Checked on the implementation by building every generated project twice and comparing directly.",
    "design_ref": "5 C13",
    "level_note": "Per file with the same inputs: when a file includes the output of another .txtpp source, that dependency's own final line ending changes with the option and is then seen mid-file by the includer; the pair oracle therefore uses mutually independent sources (multi-file projects are still compared with the model).",
    "technique": "Lean 4 proof (the option is only read by finish) + paired-run oracle + differential correspondence",
    "assumptions": ["same file contents and command results under both settings"],
}

PROPS["C16"] = {
    "jobs": [{"cmd": "c16", "shards": 32, "shards_thorough": 48}],
    "cli": False,
    "trusted_base": ["direct oracle: output bytes compared with the input text (identity / write-escape round trip)", "M5 correspondence (as C01)"],
    "modelled": WHOLE_FILE_MODELLED,
    "level_text": "Lean theorems: a source in which no line parses as a directive is reproduced as its lines joined by the source's line ending with the final one set by the option (all line lists, both passes); directive output enters the output as one chunk that is never passed through detection or tag substitution again; write_escape_roundtrip: for every non-empty text of terminator-free lines (first without leading/trailing blanks, others without trailing blanks) the source `-TXTPP#write L0 / -L1 / ...` yields exactly the lines joined by the line ending, whatever directive lines, look-alikes or tag names the text contains. Also checked on the implementation against the input text directly.",
    "design_ref": "5 C16",
    "level_note": 'The round trip theorem is stated for the prefix `-`; other prefixes (incl. non-ASCII) are exercised by the implementation oracle. The identity is also proved on bytes (plain_source_reproduced_byte_for_byte: byte-level line splitting, UTF-8 decoding and encoding, line-ending sniffing and the line loop inside one statement).',
    "technique": "Lean 4 proof (pass-through identity by induction over the machine) + round-trip oracle + differential correspondence",
    "assumptions": ["identity: no line of the source parses as a directive; escape: first line without leading blank, no trailing blanks, no CR/LF inside lines"],
}

COORD_MODELLED = ["threadpool 1.8 (FIFO job queue, n workers) and std mpsc (no loss) - the model delivers any in-flight result next, the executable simulator the first n in spawn order",
                  "what a pass computes is abstract in the theorems (World.result: ok / hasDeps / err; render); M5 ties passes to the code",
                  "directory scan tasks are a proved layer on top of the file coordinator (Coord.SSt / SReach: execute_directory with the scheduled-directory set, shared counters), tied to the code by the M6-scan trace correspondence with 16 threads (all in-flight tasks enabled)",
                  "real preemption between file-system calls of two running tasks is not modelled (the invariants show concurrently running final passes touch different outputs)"]
COORD_TB = ["M6 trace correspondence: the real coordinator under the schedule controller (verif hooks) vs the Lean coordinator model on every explored delivery order: enabled set, tasks spawned by each delivery, verdict",
            "direct oracles on the real outputs of every explored run (bytes vs sequential processing, verdict, exactly-once starts, marker order)"]

PROPS["C02"] = {
    "jobs": [{"cmd": "c02", "shards": 16}, "corner", {"cmd": "trace", "shards": 16}],
    "cli": False, "trusted_base": COORD_TB, "modelled": COORD_MODELLED,
    "level_text": 'Lean theorems over the coordinator + worker model, for every dependency graph, every interleaving of begin/finish/deliver steps, every thread count and every initial content of the outputs: a final pass is in flight only after all its dependencies finished; finished files are never touched again; at a successful exit every output is the complete sequential value, the unique solution of out f = render f out; any two successful executions (schedules, thread counts, stale outputs) finish the same files with the same contents (schedule_independent); in a first pass, meeting an include/after of a generated file switches to collect mode and from then on nothing is executed or written (commands after a dependency run only in the second pass). The real coordinator is driven through ALL delivery orders of every acyclic digraph on <= 4 files with stale outputs on disk and alias spellings, and its trace (incl. the done/total counters), bytes and marker order are compared on every run.',
    "design_ref": "5 C02, 4.7",
    "level_note": "Partial: interleavings of individual file-system calls below task granularity are not modelled; the schedule controller serialises deliveries (it explores all delivery orders, not all preemption points). The coordinator theorems also hold with results that depend on the file system at the moment of the pass (FReach: every execution with free, well-typed results is an execution of a static world; final_pass_after_dependencies_free_results), of which the concrete reference run is an instance; its trace (runProjectT) is compared with the deliveries of a real single-threaded run by the trace job. That all orders leave the same bytes is proved over the abstract worker model only.",
    "technique": "Lean 4 proof (inductive invariant + refinement to sequential build) + exhaustive schedule exploration as correspondence",
    "assumptions": ["commands terminate; a pass reads only its declared dependencies (RenderLocal)"],
}
PROPS["C03"] = {
    "jobs": [{"cmd": "c03", "shards": 16}, {"cmd": "c03d", "shards": 16}, "big", {"cmd": "trace", "shards": 16}],
    "cli": True, "trusted_base": COORD_TB, "modelled": COORD_MODELLED,
    "level_text": "Lean theorems: done == total iff nothing is in flight; no deadlock; at most 2|U| deliveries over any finite universe (termination under every schedule, cyclic or not); success implies every seen file finished; finished list, seen list and pool are duplicate-free and a finished file never gets a task again (exactly once); the unwrap in notify_finish cannot fail; with directory scan tasks: the exit test on the shared counters holds iff neither a file task nor a scan is in flight, every directory is scanned at most once (also under symbolic-link loops), and files found by scanning obey the same invariant. All delivery orders of all digraphs (cyclic included) on <= 3 files with duplicate inputs are explored on the real coordinator; task starts and command markers are counted.",
    "design_ref": "5 C03, 4.7",
    "level_note": "The delivery bound is stated relative to the number of files ever seen and the number of distinct directories; path aliases are exercised end to end (schedule worlds spell files in several ways; C11). For the concrete run (real passes over the model file system, results depending on the file system) the same facts are proved over its trace, for the reference order and for every delivery order (whole_run_never_panics, concrete_success_means_completion, concrete_run_budget, every_delivery_order_concrete); that the fuel of the reference model never runs out is bounded by the number of names, not proved outright. The trace job compares the model's trace with the deliveries of a real single-threaded run; the big job runs 700 sources with failing ones through the CLI under a watchdog.",
    "technique": "Lean 4 proof (accounting invariant + step-counting termination) + exhaustive schedule exploration as correspondence",
    "assumptions": ["commands terminate", "no worker thread panics (C18)"],
}
PROPS["C05"] = {
    "jobs": [{"cmd": "c05", "shards": 16}, {"cmd": "trace", "shards": 16}, "corner"],
    "cli": False, "trusted_base": COORD_TB, "modelled": COORD_MODELLED,
    "level_text": "Lean theorems: at quiescence every still-waiting file reaches a dependency cycle (so acyclic projects never get the circular failure), finished files cannot reach a cycle (so a required cyclic file never yields success), every seen file that cannot reach a cycle is finished with the complete sequential output, and the delivery bound does not need acyclicity (never hangs). Explored on the real coordinator over all digraphs with self-loops on <= 3 files, all delivery orders.",
    "design_ref": "5 C05, 4.7",
    "level_note": "As C02/C03. For the concrete run: concrete_circular_verdict_has_a_cycle (a circular verdict is justified by a cycle among the dependency lists the first passes of that very run reported), also for every delivery order (C03.every_delivery_order_concrete).",
    "technique": "Lean 4 proof (finite closed set reaches a cycle; topological order of the finished list) + exhaustive schedule exploration",
    "assumptions": ["commands terminate"],
}
PROPS["C04"] = {
    "jobs": [{"cmd": "c04s", "shards": 16}, {"cmd": "c04f", "shards": 24}, {"cmd": "cli04", "shards": 8}],
    "cli": True, "trusted_base": COORD_TB + ["fault enumeration with real OS faults (directory at the output path, /dev/full, RLIMIT_FSIZE, missing directories, invalid UTF-8) on the library and the CLI binary"],
    "modelled": COORD_MODELLED + ["ENOSPC/EFBIG are produced by the OS, not modelled: checked by the direct oracle only"],
    "level_text": "Lean theorems: a delivered error ends the run with a failure whatever else is in flight; a failing pass yields an error result wherever the file sits; a file whose final pass fails is never in the finished set of any reachable state, hence no state that reports success contains it. On the implementation: every fault kind x position (root/middle/leaf/sibling) x mode, and one failing file per graph under all delivery orders; CLI exit status compared with the library verdict.",
    "design_ref": "5 C04",
    "level_note": "Write faults (disk full, size limit) are exercised with real OS faults, not proved; the sink model covers create failures and verify mismatches.",
    "technique": "Lean 4 proof (failing files never finish) + fault enumeration + schedule exploration as correspondence",
    "assumptions": ["faults are deterministic for the duration of a run"],
}

PROPS["C06"] = {
    "jobs": [{"cmd": "c06", "shards": 32, "shards_thorough": 48}, {"cmd": "cli06", "shards": 8}],
    "cli": True,
    "trusted_base": ["M7 correspondence: every run of a generated history (library in process, real sh, real file system with sentinel mtimes) vs the Lean whole-run model over the same pre-state tree: verdict, all bytes on success, executed-command markers, touch set", "direct oracles on full-tree snapshots of the real runs"],
    "modelled": WHOLE_FILE_MODELLED,
    "level_text": "Lean theorems: the streaming comparison of the verify sink succeeds iff the existing bytes equal the concatenation of the chunks (any alphabet); a verify pass reports ok iff the output holds exactly the fresh bytes; opening/finishing never changes the file system; verify performs no file-system operation of its own; project level (abstract in what a pass computes, any graph and schedule): if a verify run succeeds, every file in the dependency closure of the inputs was verified and holds exactly the value a build would write, and conversely up-to-date outputs never produce an error while a reached mismatch fails its pass. On the implementation: every tampering class of every output incl. dependency outputs, option mismatch, verdict compared with a fresh build, outputs' (inode, mtime, bytes) unchanged.",
    "design_ref": '5 C06, 4.5',
    "level_note": "The project-level theorem is over the abstract worker model (render local in the dependencies); for the concrete preprocessor the iff is proved per source (verify_pass_ok_iff_output_up_to_date: a verify pass ends ok iff a build pass from the same tree ends ok and leaves the output path with the bytes already there; relational proof), for whole projects the forward direction is proved over the concrete model of Txtpp::run along the reference schedule (verify_ok_means_nothing_to_rebuild: lockstep of the verify run with the only-if-needed run of the same tree, no condition on what the sources read; verify_ok_means_build_reproduces_the_tree chains it with the C09 theorem; side conditions evaluated by the driver on every built tree of this job, counts `whole-project-theorem:verify=*`); the whole-project converse needs distinct output paths and is tied by M7 and the fresh-build oracle. The model's verify sink compares the whole output at the end; stream_compare_iff shows the streaming form is equivalent.",
    "technique": 'Lean 4 proof (stream-compare iff, sink lemmas, world invariant of a pass) + history-based differential correspondence',
    "assumptions": ['commands are deterministic functions of the files the domain lets them read'],
}

PROPS["C07"] = {
    "jobs": [{"cmd": "c07", "shards": 32, "shards_thorough": 48}, {"cmd": "cli07", "shards": 8}, "corner"],
    "cli": True,
    "trusted_base": ["M7 correspondence: every run of a generated history (library in process, real sh, real file system with sentinel mtimes) vs the Lean whole-run model over the same pre-state tree: verdict, all bytes on success, executed-command markers, touch set", "direct oracles on full-tree snapshots of the real runs"],
    "modelled": WHOLE_FILE_MODELLED,
    "level_text": "Lean theorems: a clean pass - and a complete clean run over any inputs - never invokes a command (proved via an invariant that needs no hypothesis on `run`); its line loop cannot fail whatever directive errors the source contains; it creates no file; it removes the output; whenever build's grouping of the lines into directive blocks succeeds, clean sees exactly the same blocks (escaped directive text is never a directive for clean), build writes and clean removes the same temp target, every other block is a no-op for clean; a temp target with a txtpp name is refused; untouched paths keep their bytes. On the implementation: build->clean restores the exact tree snapshot, clean alone, clean twice, partially removed generated files, erroneous sources, write-escaped temp directives naming existing files.",
    "design_ref": '5 C07',
    "level_note": "build_then_clean_restores is proved per source (build_then_clean_restores_one_source: a successful build pass followed by a clean pass of the same source restores every path of a tree in which the output and temp targets did not exist; clean_pass_removes_output_and_temp_targets; clean_pass_changes_nothing_else) and checked for whole projects on the implementation (snapshot equality). Known finding F5 (clean does not follow dependencies) is recognised by signature: every leftover path is generated by a dependency outside clean's resolved inputs.",
    "technique": 'Lean 4 proof (world invariant of a clean pass, totality of the clean machine) + snapshot oracle + differential correspondence',
    "assumptions": ['the same inputs are given to build and clean'],
}

PROPS["C08"] = {
    "jobs": [{"cmd": "c08", "shards": 32, "shards_thorough": 48}],
    "cli": True,
    "trusted_base": ["M7 correspondence: every run of a generated history (library in process, real sh, real file system with sentinel mtimes) vs the Lean whole-run model over the same pre-state tree: verdict, all bytes on success, executed-command markers, touch set", "direct oracles on full-tree snapshots of the real runs"],
    "modelled": WHOLE_FILE_MODELLED,
    "level_text": 'Lean theorems: project level, for every dependency graph and whatever a pass computes: two successful runs over the same sources and inputs, started from different contents of the generated files and under different schedules, finish exactly the same set of files (the dependency closure of the inputs) and leave every output with the same value (builds_are_a_function_of_sources). Pass level: a build / only-if-needed pass run from two file systems that differ only at generated paths (stale, truncated, arbitrary bytes, absent) yields the same verdict and the same bytes at every path, and building twice equals building once (relational proof through the refinement machine = parse/eval/render); opening an output in build mode forgets whatever the path held; a successful pass ends with exactly the fresh bytes; after a successful temp write the target holds exactly the new content whatever it held before, and an up-to-date temp file is left alone. On the implementation: every generated path pre-set independently to absent / stale / empty / truncated / cut inside a multi-byte character / random bytes / right+tail, build and needed-build, build twice, SIGKILLed CLI build followed by a rebuild; full-tree equality with the reference build.',
    "design_ref": '5 C08',
    "level_note": "The project-level theorem is over the abstract worker model with RenderLocal (a pass depends only on the outputs of its declared dependencies). For the concrete preprocessor the pass-level statement is proved relationally (pass_is_a_function_of_sources, leftovers_at_generated_paths_irrelevant, build_twice_eq_once: two runs of the same source text from file systems that differ at generated paths give the same verdict and the same bytes everywhere) under the explicit side condition that no block reads a path while it is still stale (Safe) and no dependency lookup probes a stale path - the condition is executable (srcSafeB, theorems *_where_checked) and the model driver evaluates it on every source of every generated tree of this job (counts `theorem_side_condition_*` in the evidence: it held for all of them); Whole projects: whole_project_leftovers_irrelevant / whole_project_same_result / whole_project_build_twice_eq_once are proved over the concrete model of Txtpp::run (input resolution, scans, coordinator, every pass, dependencies included) along the sequential reference schedule, under the executable side condition projStale (first-pass aware: a first pass owes nothing after the dependency directive it stops at); the driver evaluates that condition and the theorems' conclusions on every generated project (counts `whole-project-theorem:*` in the evidence). Other schedules of the concrete passes: C02 over the abstract worker model plus the schedule jobs. Crash timing is sampled (random SIGKILL delays), covered in the model by 'any bytes at generated paths'.",
    "technique": 'Lean 4 proof (sink and temp-rule lemmas) + pre-state enumeration + differential correspondence',
    "assumptions": ['generated paths hold regular files or nothing', 'commands are deterministic'],
}

PROPS["C09"] = {
    "jobs": [{"cmd": "c09", "shards": 32, "shards_thorough": 48}, {"cmd": "cli09", "shards": 8}],
    "cli": True,
    "trusted_base": ["M7 correspondence: every run of a generated history (library in process, real sh, real file system with sentinel mtimes) vs the Lean whole-run model over the same pre-state tree: verdict, all bytes on success, executed-command markers, touch set", "direct oracles on full-tree snapshots of the real runs"],
    "modelled": WHOLE_FILE_MODELLED,
    "level_text": "Lean theorems: in needed mode an output whose bytes are already correct is returned untouched (same file system value, same touch set), a stale or missing one is written, and verdict and bytes at every path equal those of a normal build's done; opening touches nothing; no mode rewrites a temp file whose content is already correct while stale ones end correct; project level: a successful needed run and a successful normal run finish the same files with the same contents (the mode does not enter what a pass computes). On the implementation: per generated file up to date / stale (longer, shorter, same length, non-UTF-8, other) / missing; bytes equal a normal build in a scratch copy, (inode, mtime) preserved for correct files; the CLI flag -N is mapped to this mode (binary vs library on identical trees).",
    "design_ref": '5 C09',
    "level_note": 'Whole project: needed_project_vs_build_project / needed_project_eq_build_project are proved over the concrete model of Txtpp::run (input resolution, scans, coordinator, all passes, dependencies included) along the sequential reference schedule under the executable side condition projStale(trNeeded) - evaluated by the driver on the clean, the fully built and the partly stale tree of every generated project (counts `whole-project-theorem:needed=*` in the evidence). The CLI mapping -N -> InMemoryBuild (and -n, verify, clean, -r, -j) is checked on the binary by the CLI-flags job: same tree through the library with the Config and through the binary with the flags.',
    "technique": 'Lean 4 proof (needed sink = build sink on bytes, no-touch lemmas) + history-based differential correspondence',
    "assumptions": ['commands are deterministic'],
}

PROPS["C10"] = {
    "jobs": [{"cmd": "c10", "shards": 32, "shards_thorough": 48}, {"cmd": "cli10", "shards": 8}, "big"],
    "cli": True,
    "trusted_base": ["M7 correspondence: every run of a generated history (library in process, real sh, real file system with sentinel mtimes) vs the Lean whole-run model over the same pre-state tree: verdict, all bytes on success, executed-command markers, touch set", "direct oracles on full-tree snapshots of the real runs"],
    "modelled": WHOLE_FILE_MODELLED,
    "level_text": "Lean theorems (frame condition of the model): after any pass in any mode - and after a complete run (input resolution, scanning, every pass the coordinator schedules) - whatever the outcome, every path outside the touch set has the bytes it had before and the touch set only grows; it is extended only by writes/removals of the output path and of resolved temp targets; vocabulary commands change no file; verify's open/finish and clean's operations create nothing. The touch set is compared with real inode/mtime changes by M7, and a full-tree snapshot oracle with decoys at near-miss names checks that only outputs and temp targets change.",
    "design_ref": '5 C10',
    "level_note": "The write scope is proved over the source text: every path a pass / a whole run touches is the output path of a processed source or the resolved target of a temp block of its text (pass_writes_only_output_and_temp_targets, run_writes_only_outputs_and_temp_targets, using the refinement machine = parse/eval/render), directories never change; the snapshot oracle checks the same scope on the real file system (inode/mtime/content of every path, plus decoys).",
    "technique": 'Lean 4 proof (touch-set soundness invariant over every pass) + full-tree snapshot oracle + differential correspondence',
    "assumptions": ['temp targets and outputs are distinct from sources and static files (domain 4.3 f)'],
}

PROPS["C11"] = {
    "jobs": [{"cmd": "c11", "shards": 32, "shards_thorough": 48}, {"cmd": "cli11", "shards": 8}, "big"],
    "cli": True,
    "trusted_base": ["M8 correspondence: library runs on generated trees and input lists vs the Lean whole-run model (resolveInputs, scanDir, naming)", "independent restatement of the processed-set rule in the harness (oracle)"],
    "modelled": WHOLE_FILE_MODELLED + ["std::path::{extension, file_stem, set_extension} (model PathName), canonicalize/exists/is_dir (OS-style walk over the model tree, no symbolic links)"],
    "level_text": 'Lean theorems for ALL names: foo.txtpp -> foo, foo.ext.txtpp -> foo.ext, foo.txtpp.ext is a txtpp source and -> foo.ext (also for dotted foo: finding F6 repaired), whichever source get_txtpp_file finds for an output name has exactly that output (round trip), a source name is never resolved as an output name, look-alikes are not txtpp files; coordinator level: every file ever processed is reachable from an input along dependency edges, and at a successful exit the processed set is exactly the dependency closure of the inputs, each finished once. The processed set (named files by either name, files directly in named directories, recursive only on request, plus transitive dependencies when building/verifying) is compared with the model and with an independent restatement on generated trees x input lists incl. aliases, absolute paths, duplicates, missing targets.',
    "design_ref": "5 C11, 4.6",
    "level_note": "The directory walk is proved against its specification (directory_inputs_find_exactly_the_sources_below: exactly the txtpp-named files in an input directory or, recursive, below one; the fuel always suffices), the processed set equals the dependency closure of the inputs (processed_set_eq_closure); resolve_inputs on file arguments is an executable model function tied to the code by M8 and the independent oracle, not a theorem. Symbolic links to files are outside the domain.",
    "technique": "Lean 4 proof (file-name algebra for all names) + differential correspondence + independent oracle",
    "assumptions": ["no symbolic links inside the tree", "names without empty dot segments for the round trip"],
}
PROPS["C17"] = {
    "jobs": [{"cmd": "c17", "shards": 12}],
    "cli": True,
    "trusted_base": ["M9: real sh / bash / an argv-logging wrapper shell; pwd -P, $TXTPP_FILE, argv and exit status captured from the real child process", "library runs with the default shell compared with the model (pwd / file actions)"],
    "modelled": ["std::process::Command (current_dir, env, arg) and the shell are not modelled in Lean: the model states what is handed to them"],
    "level_text": "Lean theorems over the model: a run directive hands the shell exactly the argument lines joined by single spaces as one string and a failing command fails the directive; base ++ display(base, src) = src (TXTPP_FILE designates the source at every depth); the working directory given to a command of a source at dir/name is base/dir. The contract with the OS is checked by correspondence on depth 0..3 x cwd relation {equal, parent with relative base_dir, unrelated} x library/CLI x {sh, bash, argv-logging shell} x command shapes; main's guard on TXTPP_FILE is modelled (Model/Cli.lean `entry`): proved to refuse exactly on a non-empty value whatever the command line, and that the value a command finds in TXTPP_FILE is never empty, so a txtpp started by a command refuses (commands_cannot_recurse); the binary is compared with that model on TXTPP_FILE values x {build, -N, verify, clean} and on run commands that start txtpp themselves at depth 0..2. Also proved: the -s setting is split at white space only (tokens non-empty, blank = sh -c); a source not below the base directory component-wise keeps its absolute path in TXTPP_FILE.",
    "design_ref": "5 C17",
    "level_note": "Mostly a correspondence-level claim: process spawning is OS behaviour. Finding F1 (relative cwd) was repaired; the cwd-relation dimension is what exposed it.",
    "technique": "Lean 4 proof (command join, display/join round trip) + correspondence with real shells",
    "assumptions": ["sh and bash behave per POSIX for the vocabulary commands"],
}
PROPS["C18"] = {
    "jobs": [{"cmd": "c18", "shards": 32, "shards_thorough": 48}],
    "cli": True,
    "inventory": True,
    "trusted_base": ["M10: function-level fuzz under catch_unwind and whole-run fuzz under a watchdog (in process, all threads share one panic hook)", "panic-site inventory (tools/panic_sites.py): counts of slice/index/unwrap/expect/assert/unreachable/panic/`- 1` expressions per anchored file against the audited counts"],
    "modelled": ["byte-offset slicing is modelled by byteSplit (defined exactly on char boundaries <= len)", "panics inside std / dependencies and resource exhaustion are outside the model"],
    "level_text": "Lean theorems, one per panic-capable site of the anchored files: every slice of detect_from and add_line is taken at the byte length of a known prefix (always a char boundary), the inject_tags slices are never inverted, stay within the line and sit on boundaries, Display's args[0] exists for every directive detect_from/add_line can produce, lines from str::lines never end in a newline (the assert in inject_tags), the unwrap in notify_finish cannot fail in any reachable coordinator state, and the coordinator loop ends after at most 2|U| deliveries with exit test = nothing in flight, also with directory scans and symbolic-link loops (no hang, given no worker panics). The sites are tied to the code by the inventory; fuzzing searches for a failing input.",
    "design_ref": "5 C18, 4.8",
    "level_note": 'Partial: panics inside std/dependencies, allocation failure and stack exhaustion are outside the model. F2 (-j 0) and F4 (symlink loop) were repaired.',
    "technique": "Lean 4 proof (per-site no-panic theorems, termination bound) + panic-site inventory + fuzzing as failing-input search",
    "assumptions": ["commands terminate"],
}

# properties not (yet) claimed, with the reason shown in MANIFEST.not_applicable
PENDING = {}

#!/usr/bin/env python3
"""Regenerate DESIGN.md section 9.5 (seeded changes and which checks catch them) from seeded/*/meta.json."""
import glob, json, os, re
ROOT = os.path.dirname(os.path.dirname(os.path.abspath(__file__)))
rows = []
for d in sorted(glob.glob(os.path.join(ROOT, "seeded", "*"))):
    m = json.load(open(os.path.join(d, "meta.json")))
    det = []
    for x in m.get("detected_by", []):
        t = x["check"]
        if not x["detected"]:
            t += " (missed)"
        elif x.get("kind") == "no-failing-input-found":
            t += " (correspondence only)"
        det.append(t)
    brk = re.sub(r"\s+", " ", m.get("breaks", "")).replace("|", "/")
    rows.append("| %s | %s | %s | %s |" % (os.path.basename(d), m["property"], brk[:160], ", ".join(det) or "not run yet"))
hdr = """### 9.5 Seeded changes and which checks catch them

%d changes to txtpp were written by sub-agents that saw only the text of one property and a scratch worktree
(fifteen rounds; the second asked for less obvious sites, the third and fourth (`"round"` in meta.json) for three mutually
different mechanisms per property with narrow failing inputs, schedule-dependent ones included; the fifth and sixth were
confined to the ENTRY LAYER - src/main.rs, lib.rs, config.rs, progress.rs, error.rs, shell.rs: how an invocation becomes a
run and how its result is reported). Each was confirmed in a scratch worktree (`tools/confirm_seeds.sh`,
`tools/confirm_seeds3.sh`: the patch applies, the 104 tests + 4 doc tests pass with it, it builds with the `verif` feature, its
demonstration behaves differently with it than without it) and is
kept under `seeded/<id>/` (patch.diff, demo/, meta.json). `tools/run_seeds.py` applies each to /repo, runs the quick check of
its property, and undoes it. "correspondence only" = the check reports the violation with `no-failing-input-found`.
Three round-3 changes were missed at first (C07-4: temp target `name.txtpp.ext` accepted, C16-3: tab after the directive name
accepted - the identity generator filtered its alphabet through the implementation's own `detect_from`, C17-5: working
directory passed as a lossy display string); the generators/oracles were strengthened (temp targets of both txtpp name shapes
incl. one naming an existing source; the alphabet is classified by the Lean grammar model; directory names that are not
UTF-8 / contain blanks, quotes, backslashes) and all three are caught now. Round 4: four of 30 were missed at first by the
check of their own property (C01-7: a stored tag whose text names another stored tag, substituted sequentially - the project
generator never stored such text; C10-6: `txtpp.md` / `.txtpp` taken for sources - no such decoys; C18-6: partially
overlapping tag names panic - the tag fuzz drew names from a large alphabet; C18-7: a directory reached twice makes the
coordinator wait forever - the configuration fuzz always passed the single input `.`); generators extended, all caught now
(C14 / C11 / C03 caught the same changes from the start). Rounds 5-6 (entry layer, 24 changes): the library-level
jobs cannot see src/main.rs at all, so before these rounds only the two CLI jobs of C09 / C13 looked at it. Every CLI-dependent
property now has a CLI job (cli04/06/07/09/11/13: flags in varying order and spelling, `-n` with `-N` / `verify`, a top-level
`-N` in front of a sub-command, `-v` / no `-q`, named inputs, failing verify through the exit status, missing or stale
outputs under `-N` with the no-touch check, absent outputs named to clean), C11 cases and C04 faults also go through the
binary (inputs named one by one, inputs spelled through a named directory, a directory called `pages.txtpp`, look-alike
inputs), C17 gives the shell by a relative path, and the C18 fuzz runs the binary with the progress display on (long
non-ASCII names, a directory whose name is not UTF-8, blank / padded / unknown `-s` values). Ten of the 24 were missed
before these additions, none after. The flag mapping and the shell argument vector are also in the Lean model now
(Model/Cli.lean, Model/Shell.lean) and compared with the code by the same jobs. Round 7 (core again, "changes a reviewer
would wave through", 24 changes): five missed at first - C06-10 verify leaves an existing temp file alone (needs a source that
reads its temp file back + an edit of the temp body: added as a scenario), C07-10 a temp target that is a directory aborts
clean (added), C10-9 a top-level `-N` in front of `clean` (C10 had no CLI job: cli10 added), C10-10 `after` of a missing file
creates it (the generator never wrote `after` of a file without source: added), C12-8 the skip-if-unchanged tests ignore line
terminators (needs a rebuild after the source's ending changed: the C12 job now flips the first line's ending and rebuilds,
plain or only-if-needed) - all caught now. Round 8 (C02-C05, C11, C13-C15, 24 changes): 22 caught at once; the other two were
changes in the line loop that the function-level jobs of C14 / C15 cannot see (a listening tag that ignores an empty output;
a dependency directive on the last line of a file dropped in collect mode) - C14 and C15 now also have end-to-end jobs
(c14e, c15e: exhaustive small sources through `Txtpp::run` vs the model) and every other schedule-world file with
dependencies now ends with its dependency directive as the last line. Round 9 ("second-order effects", 24 changes): six
missed at first - overlapping tag names where the skipped tag was dropped (C01), a dependency reached through a symbolic
link or named by absolute path (C02), a stored tag text naming a later tag in the write-escape test (C16), a directory called
`sh` in the working directory and a source outside the base whose path begins with the base path's text (C17); the
generators were extended again and all are caught. Round 10 (C04-C07, C09, C11-C13, "the inputs the checks do not
generate", 24 changes): seven missed at first - a short write to a *temp* file under a file-size limit (C04: the fault
injection limited only outputs), a write-escaped `include` line re-examined in collect mode (C05: schedule-world files now carry
one), verify of an output larger than the 8 KiB reader buffer (C06: large-output scenario, 40 KB - 3 MB), the unused-tag
check skipped under `--needed` (C09: erroneous projects must fail under `--needed` exactly like under a build), `include
x.txtpp` of a source file taken for a dependency and verify skipping the dependency pass (C11: raw includes of source files
and a verify mode in the input-resolution job), a source built only as a dependency ignoring the trailing-newline option
(C13: dependency-only scenario) - all caught now. Round 11 (C01-C03, C08, C10, C14, C16, C18; "what a randomised generator
of small projects is unlikely to produce": large inputs, unusual bytes, rare orders, rare modes with rare file states, 24
changes) exposed a systematic blind spot rather than single gaps: by the sub-agents' summaries at least 21 of the 24 needed an
input that none of the sampling generators could draw (a first line or an included file beyond the 8 KiB reader buffer, a
multi-byte character across a buffer boundary or across byte 72 of an argument, a temp target rewritten with a prefix of its
old content, stray carriage returns, an empty fresh output over a stale or missing one, a directive prefix that is not
ASCII, a tag with a multi-byte name on a short line, a waiting tag followed by an empty output, tags after a dependency,
dependency directives sharing a prefix with a multi-line directive before them, a stale output behind a symbolic link, file
names that are not UTF-8, 700 sources with failing ones among them, a command that fills the stderr pipe). Two families of
explicit scenarios were therefore added before the first run against these seeds: `harness/src/corner.rs` (13 small
projects, run in their modes by every model-compared job and, with a watchdog, through the CLI in C18) and the `big` job
(many files / non-UTF-8 names through the CLI binary, for C03, C10, C11 and inside C18), plus three additions to the schedule
worlds (same-prefix dependency directives, a non-ASCII multi-line block, stale outputs behind symbolic links). With them 21 of
the 24 were caught at the first run; the other three needed a correction of the additions themselves (a corner scenario that
ended in an error, so that only its verdict was compared; `-N verify` / `-N clean` left to a 1-in-15 draw - now the first
cases of the CLI jobs). The corner scenarios also found a defect of the *model* (a lone carriage return at the very end of a
file, 9.3). Round 12 (the same theme for the other ten properties: C04-C07, C09, C11-C13, C15, C17; 30 changes) was run
against the machinery as it then stood, with nothing added beforehand: 20 of the 30 were caught at the first run - seven of
them by the corner scenarios, the large-output scenario and the new trace job - and ten were missed: verify accepting a
tail appended to an output of exactly 0 / 8192 bytes (C04), a second source of the same output never scheduled (C05), verify
comparing lossily decoded text (C06), clean deleting the file behind a symbolic link at the output path (C07), `-N`
replacing such a link by a regular file (C09), symbolic links inside a scanned directory skipped (C11), `verify -n`
ignored by the CLI (C13: three such cases were drawn, none with an output on which the option shows), continuation
indentation capped at 64 bytes (C15), TXTPP_FILE of a dependency reached from an includer in a sub-directory and command
output decoded in 8 KiB pieces (C17). Each got an explicit scenario (output sizes around the reader buffer with appended
tails; twin sources as a corner project; U+FFFD in an output with its first byte changed; symbolic links at output paths
and inside scanned directories; `verify -n` as the first case of every CLI shard over a source that ends in a text line;
prefixes of 64-130 bytes in the add_line enumeration; the dependency-in-a-sub-directory project with a 40 KB command
output) and all ten are caught now. Round 13 (C01-C04, C06, C08-C12, C14, C16; "what a single run on a fresh small project
does not show": histories of runs, two features interacting, more than one worker, how a failure is reported; 36 changes),
again run first against the machinery as it stood: 29 of 36 caught at once (the history jobs, the schedule exploration,
the trace job and the corner scenarios carried most of them); seven missed - verify treating an existing include target as
a plain file, so that a broken dependency is never verified when only the includer is named (C04: the fault job always
requested the whole directory, and all its shards drew the same random stream - now the root alone is requested in a quarter
of the cases and the stream depends on the shard), a failing verify that deletes the existing output and a verify that
rewrites the stale output of a dependency outside its inputs (C06, C10: `verify_read_only_scenarios`), a tag still waiting
at end of file accepted, and the unused-tag check skipped in verify (C14: corner scenarios with an expected error in
build / needed / verify over an output that already matches), `-N` comparing line by line after the source's line endings
or the trailing option changed (C16: the identity job now also runs only-if-needed over an output left with the other
line ending or a flipped final line ending). All caught now. (While adding the root-only request to the fault job, the
clean mode raised a false alarm on the unchanged tree before anything was committed: clean does not follow dependencies -
F5 - so a faulty leaf is rightly not reached; clean keeps the whole-directory request.) Round 14 (C01, C05-C07, C13, C15, C17, C18; free choice: the sub-agents were
told what the harness already exercises and asked for a failing-input class outside it, with their reason in
`meta.json` `why_missed`; 24 changes), first run without additions: 14 of 24 caught, ten missed - a CRLF whose CR and LF lie
on the two sides of the 8 KiB reader buffer, the indentation of a continuation line inside a quoted command argument (C01), a
verify that does not wait for dependencies on a cycle whose outputs are consistent (C05: the scenario existed at once but was
drawn with the trailing setting under which verify fails anyway - it now runs with both), an appended byte after an output
of exactly 64 KiB (C06), clean keeping a rejected prefix-less `temp` directive pending (C07), continuation lines re-examined as
directives in collect mode (C15), a shell killed by a signal and a shell found through a relative PATH entry (C17), a command
reading standard input while txtpp's own stdin is an open pipe and status lines shortened at a byte offset inside a
multi-byte character (C18). Explicit scenarios for each (corner projects 1b and 16-19, the corner job now also in the checks
of C05 and C07, output sizes at 64 KiB multiples in C06, a signal-killed command shape and a relative-PATH shell in C17, an
open-stdin run and 24 long multi-byte paths with the progress display on in C18); all ten are caught now. Round 15
(C02, C12, C14-C17; same free-choice prompt; 18 changes), first run without additions: 15 of 18 caught, three missed - the
line-ending probe limited to 64 KiB (C12-18) and to 16 KiB (C16-20: the long-first-line scenarios stopped at 9000 bytes; they
now also have 17 000 and 70 000 bytes, and the C12 generator draws first lines around 8, 16, 64 and 128 KiB), and a tag name cut
at its first blank (C14-19: generated tag names had no inner white space; the generator now draws `SEC A<n>` / `T --><n>`
and two corner projects carry the README's `PRE_CONTENT -->` name and two names sharing their first word). All three are
caught now. One change of this round (C14-17: a tag span computed in characters but used in bytes) makes a worker thread of
txtpp panic, after which `Txtpp::run` waits for ever; the in-process end-to-end job then sits until the job timeout of the
check driver (900 s) ends it - the change is reported (by the tag jobs at once, by the timed-out job as a failed job), but
the quick check of C14 takes that long on such a tree.

| id | property | what the change does | caught by (quick tier) |
|----|----------|----------------------|------------------------|
""" % len(rows)
txt = hdr + "\n".join(rows) + "\n"
p = os.path.join(ROOT, "DESIGN.md")
s = open(p).read()
if "### 9.5 Seeded changes" in s:
    a = s.index("### 9.5 Seeded changes")
    b = s.find("\n### 9.6", a)
    s = s[:a] + txt + (s[b:] if b >= 0 else "")
else:
    s = s.rstrip() + "\n\n" + txt
open(p, "w").write(s)
print("section 9.5: %d rows" % len(rows))

#!/usr/bin/env python3
"""Regenerate DESIGN.md section 9.5 (seeded changes and which checks catch them) from seeded/*/meta.json."""
import glob, json, os, re
ROOT = os.path.dirname(os.path.dirname(os.path.abspath(__file__)))
rows = []
for d in sorted(glob.glob(os.path.join(ROOT, "seeded", "*"))):
    m = json.load(open(os.path.join(d, "meta.json")))
    det = []
    for x in m.get("detected_by", []):
        t = x["check"]
        if not x["detected"]:
            t += " (missed)"
        elif x.get("kind") == "no-failing-input-found":
            t += " (correspondence only)"
        det.append(t)
    brk = re.sub(r"\s+", " ", m.get("breaks", "")).replace("|", "/")
    rows.append("| %s | %s | %s | %s |" % (os.path.basename(d), m["property"], brk[:160], ", ".join(det) or "not run yet"))
hdr = """### 9.5 Seeded changes and which checks catch them

%d changes to txtpp were written by sub-agents that saw only the text of one property and a scratch worktree
(two rounds; the second asked for less obvious sites). Each was confirmed in a scratch worktree (`tools/confirm_seeds.sh`:
the patch applies, the 104 tests + 4 doc tests pass with it, its demonstration fails with it and passes without it) and is
kept under `seeded/<id>/` (patch.diff, demo/, meta.json). `tools/run_seeds.py` applies each to /repo, runs the quick check of
its property, and undoes it. "correspondence only" = the check reports the violation with `no-failing-input-found`.

| id | property | what the change does | caught by (quick tier) |
|----|----------|----------------------|------------------------|
""" % len(rows)
txt = hdr + "\n".join(rows) + "\n"
p = os.path.join(ROOT, "DESIGN.md")
s = open(p).read()
if "### 9.5 Seeded changes" in s:
    a = s.index("### 9.5 Seeded changes")
    b = s.find("\n### 9.6", a)
    s = s[:a] + txt + (s[b:] if b >= 0 else "")
else:
    s = s.rstrip() + "\n\n" + txt
open(p, "w").write(s)
print("section 9.5: %d rows" % len(rows))

#!/bin/bash
# run every claimed check (quick tier by default) on the current tree; summary on stdout
cd "$(dirname "$(readlink -f "$0")")/.."
tier=${1:-quick}
for p in $(python3 -c "import json;print(' '.join(c['property_id'] for c in json.load(open('MANIFEST.json'))['checks']))"); do
  timeout 5400 ./check $p --tier $tier | tail -1 | cut -c1-200
done

#!/bin/bash
# Confirm round-3 sub-agent seeds (layout: $ROOT/<id>/out/<k>/{patch.diff,demo/demo.sh,meta.json}, worktree $ROOT/<id>/wt):
#  (1) patch applies, the whole test suite passes with it, it builds with --features verif,
#  (2) demo output with the changed binary differs from the output with the original binary.
# Confirmed seeds are kept as /verif/seeded/<id>-<n>/ (n continues the existing numbering).
# usage: confirm_seeds3.sh <id>     (env ROOT, default /tmp/r3)
ROOT=${ROOT:-/tmp/r3}
id=$1
WT=$ROOT/$id/wt
export CARGO_NET_OFFLINE=true
n=$(ls -d /verif/seeded/$id-* 2>/dev/null | wc -l)
git -C $WT checkout -q -- . ; git -C $WT clean -fdq -e target
(cd $WT && cargo build --offline >/dev/null 2>&1) && cp $WT/target/debug/txtpp $ROOT/$id/txtpp.clean
for k in 1 2 3; do
  S=$ROOT/$id/out/$k
  [ -f $S/patch.diff ] || continue
  git -C $WT checkout -q -- . ; git -C $WT clean -fdq -e target
  if ! git -C $WT apply $S/patch.diff 2>$ROOT/logs/$id-$k.apply; then echo "$id/$k: patch does not apply"; continue; fi
  (cd $WT && cargo test --workspace --no-fail-fast --offline >$ROOT/logs/$id-$k.test 2>&1); trc=$?
  passed=$(grep -E "^test result: ok" $ROOT/logs/$id-$k.test | sed -E 's/.* ([0-9]+) passed.*/\1/' | paste -sd+ | bc)
  (cd $WT && cargo build --offline --features verif >/dev/null 2>&1); vrc=$?
  (cd $WT && cargo build --offline >/dev/null 2>&1); cp $WT/target/debug/txtpp $ROOT/$id/txtpp.mut
  (cd $S/demo && timeout 120 sh ./demo.sh $ROOT/$id/txtpp.mut >$ROOT/logs/$id-$k.demo_mut 2>&1)
  (cd $S/demo && timeout 120 sh ./demo.sh $ROOT/$id/txtpp.clean >$ROOT/logs/$id-$k.demo_clean 2>&1)
  if cmp -s $ROOT/logs/$id-$k.demo_mut $ROOT/logs/$id-$k.demo_clean; then differs=0; else differs=1; fi
  ok=no
  if [ $trc -eq 0 ] && [ "$passed" = "108" ] && [ $differs -eq 1 ] && [ $vrc -eq 0 ]; then ok=yes; fi
  echo "$id/$k: tests_rc=$trc passed=$passed verif_build=$vrc demo_differs=$differs confirmed=$ok"
  if [ $ok = yes ]; then
    n=$((n+1)); D=/verif/seeded/$id-$n; mkdir -p $D
    cp $S/patch.diff $D/patch.diff; cp -r $S/demo $D/demo
    python3 - "$D" "$id" "$S/meta.json" "$passed" <<'PY'
import json,sys
D,pid,meta,passed=sys.argv[1:]
try: a=json.load(open(meta))
except Exception: a={}
m={"property":pid,"round":int(__import__("os").environ.get("ROUND","3")),"breaks":a.get("summary",""),"needs":a.get("failing_input",""),
   "confirmed":{"how":"tools/confirm_seeds3.sh in a scratch worktree of /repo HEAD: git apply patch.diff; cargo test --workspace --no-fail-fast --offline (108 passed); cargo build --features verif; demo/demo.sh <binary> output differs between the changed and the original binary",
                "tests_passed_with_patch":int(passed),"demo_differs":True,"builds_with_feature_verif":True},
   "detected_by":[]}
json.dump(m,open(D+'/meta.json','w'),indent=1)
PY
  fi
done
git -C $WT checkout -q -- . ; git -C $WT clean -fdq -e target
rm -rf $WT/target

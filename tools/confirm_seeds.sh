#!/bin/bash
# Confirm sub-agent seeded changes in a scratch worktree (outside /repo and /verif):
#  (1) patch applies + test suite passes with it, (2) demo fails with it, (3) demo passes without it.
# Keeps confirmed ones under /verif/seeded/<prop>-<k>/ (patch.diff, demo/, meta.json).
# usage: confirm_seeds.sh C01 C02 ...
WT=/tmp/confirm/wt
SEEDROOT=${SEEDROOT:-/tmp/seed}
KOFF=${KOFF:-0}
mkdir -p /tmp/confirm
if [ ! -d $WT ]; then git -C /repo worktree add -q --detach $WT HEAD; fi
export CARGO_NET_OFFLINE=true
for id in "$@"; do
  for k in 1 2; do
    S=$SEEDROOT/$id/SEED
    [ -f $S/patch$k.diff ] || continue
    name=$id-$((k+KOFF))
    git -C $WT checkout -q -- . ; git -C $WT clean -fdq -e target
    if ! git -C $WT apply $S/patch$k.diff 2>/tmp/confirm/$name.apply; then echo "$name: patch does not apply"; continue; fi
    (cd $WT && cargo test --workspace --no-fail-fast --offline >/tmp/confirm/$name.test 2>&1); trc=$?
    passed=$(grep -E "^test result: ok" /tmp/confirm/$name.test | sed -E 's/.* ([0-9]+) passed.*/\1/' | paste -sd+ | bc)
    (cd $WT && cargo build --offline --features verif >/dev/null 2>&1); vrc=$?
    sh $S/demo$k/run.sh $WT >/tmp/confirm/$name.demo_mut 2>&1; d1=$?
    git -C $WT checkout -q -- . ; git -C $WT clean -fdq -e target
    sh $S/demo$k/run.sh $WT >/tmp/confirm/$name.demo_clean 2>&1; d0=$?
    ok=no
    if [ $trc -eq 0 ] && [ "$passed" = "108" ] && [ $d1 -ne 0 ] && [ $d0 -eq 0 ] && [ $vrc -eq 0 ]; then ok=yes; fi
    echo "$name: tests_rc=$trc passed=$passed verif_build=$vrc demo_with_patch=$d1 demo_clean=$d0 confirmed=$ok"
    if [ $ok = yes ]; then
      D=/verif/seeded/$name; rm -rf $D; mkdir -p $D
      cp $S/patch$k.diff $D/patch.diff; cp -r $S/demo$k $D/demo; cp $S/meta$k.json $D/meta_agent.json
      python3 - "$D" "$id" "$k" "$passed" "$d1" "$d0" <<'PY'
import json,sys
D,pid,k,passed,d1,d0=sys.argv[1:]
try: a=json.load(open(D+'/meta_agent.json'))
except Exception: a={}
m={"property":pid,"breaks":a.get("summary",""),"needs":a.get("needs",""),"why_tests_pass":a.get("why_tests_pass",""),
   "confirmed":{"how":"tools/confirm_seeds.sh in a scratch worktree of /repo HEAD: git apply patch.diff; cargo test --workspace --no-fail-fast --offline; sh demo/run.sh <worktree>; git checkout; sh demo/run.sh <worktree>",
                "tests_passed_with_patch":int(passed),"demo_exit_with_patch":int(d1),"demo_exit_clean":int(d0),"builds_with_feature_verif":True},
   "detected_by":[]}
json.dump(m,open(D+'/meta.json','w'),indent=1)
PY
      rm -f $D/meta_agent.json
    fi
  done
done
git -C $WT checkout -q -- . ; git -C $WT clean -fdq -e target

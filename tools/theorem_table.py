#!/usr/bin/env python3
"""Regenerate the `proved` column of DESIGN.md section 9.2 from the `theorem` declarations of lean/Txtpp/Props/*.lean
(the third column, what is still only checked, is kept as written)."""
import os, re
ROOT = os.path.dirname(os.path.dirname(os.path.abspath(__file__)))
p = os.path.join(ROOT, "DESIGN.md")
s = open(p).read()
a = s.index("### 9.2"); b = s.index("### 9.3")
sec = s[a:b]
total = 0
out = []
for line in sec.split("\n"):
    m = re.match(r"\| (C\d\d) \|(.*)\|(.*)\|\s*$", line)
    if m:
        pid = m.group(1)
        names = re.findall(r"^theorem\s+([A-Za-z0-9_.]+)", open(os.path.join(ROOT, "lean/Txtpp/Props/%s.lean" % pid)).read(), re.M)
        total += len(names)
        line = "| %s | %s |%s|" % (pid, ", ".join("`%s`" % n for n in names), m.group(3))
    line = re.sub(r"\(\d+ property theorems;", "(%d property theorems;" % total, line)
    out.append(line)
s = s[:a] + "\n".join(out) + s[b:]
open(p, "w").write(s)
print("section 9.2: %d theorems" % total)

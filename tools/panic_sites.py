#!/usr/bin/env python3
"""Panic-site inventory for C18 (DESIGN 4.8): per anchored source file, count the panic-capable
expressions outside #[cfg(test)] (slice/index expressions, unwrap(), expect(, assert!, unreachable!,
panic!, `- 1`) and compare with the audited counts for which Lean site theorems exist.
A changed count means the audit no longer covers the code (a broken correspondence, not by itself
a violation). usage: panic_sites.py [--print]"""
import json, os, re, sys
REPO = "/repo"
FILES = [
    "src/core/execute/pp/directive/directive_from.rs",
    "src/core/execute/pp/directive/directive_add_line.rs",
    "src/core/execute/pp/directive/mod.rs",
    "src/core/util/tag_state.rs",
    "src/core/util/dependency.rs",
    "src/core/util/string.rs",
    "src/core/execute/mod.rs",
    "src/core/execute/pp/mod.rs",
    "src/fs/line_ending.rs",
    "src/fs/io_context.rs",
    "src/fs/shell.rs",
    "src/fs/path/mod.rs",
    "src/fs/path/abs_path.rs",
]
PATTERNS = {
    "slice_or_index": r"[A-Za-z_\)\]]\[[^\]\n]*\]",       # x[..], x[i]
    "unwrap": r"\.unwrap\(\)",
    "expect": r"\.expect\(",
    "assert": r"\bassert(_eq|_ne)?!",
    "unreachable": r"\bunreachable!",
    "panic": r"\bpanic!",
    "minus_one": r"-\s*1\b",
}

def strip(src):
    # drop everything from the first #[cfg(test)] on (test modules are at the end of each file)
    i = src.find("#[cfg(test)]")
    if i >= 0:
        src = src[:i]
    out = []
    for l in src.splitlines():
        l = re.sub(r"//.*", "", l)
        l = re.sub(r'"(\\.|[^"\\])*"', '""', l)       # string literals
        if re.match(r"\s*#\[", l):                     # attributes
            continue
        out.append(l)
    return "\n".join(out)

def count():
    res = {}
    for f in FILES:
        p = os.path.join(REPO, f)
        if not os.path.exists(p):
            res[f] = None
            continue
        s = strip(open(p).read())
        res[f] = {k: len(re.findall(v, s)) for k, v in PATTERNS.items()}
    return res

AUDIT = os.path.join(os.path.dirname(os.path.abspath(__file__)), "panic_sites.audited.json")
if __name__ == "__main__":
    cur = count()
    if "--print" in sys.argv:
        print(json.dumps(cur, indent=1)); sys.exit(0)
    if "--write" in sys.argv:
        json.dump(cur, open(AUDIT, "w"), indent=1); print("written"); sys.exit(0)
    old = json.load(open(AUDIT))
    diffs = []
    for f in FILES:
        if cur[f] != old.get(f):
            diffs.append("%s: audited %s, now %s" % (f, old.get(f), cur[f]))
    if diffs:
        print("PANIC-SITE-INVENTORY-CHANGED")
        for d in diffs:
            print("  " + d)
        sys.exit(1)
    print("panic-site inventory unchanged: %d files, %d sites" % (len(FILES), sum(sum(v.values()) for v in cur.values() if v)))
